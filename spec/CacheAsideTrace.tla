--------------------------- MODULE CacheAsideTrace ---------------------------
(***************************************************************************)
(* Trace specification for the concurrent-readers clause of property C06:  *)
(* validates a trace recorded from the real sqlc.CachedConn (QueryRow and  *)
(* QueryRowIndex; harness/c06, TestVerifC06Concurrent).                    *)
(*                                                                         *)
(* Keys: plain primary keys read with QueryRow, and pairs <<i, q>> of an   *)
(* index key i read with QueryRowIndex and the primary key q it leads to.  *)
(* Events (one JSON object per line, file order = order of the sequence    *)
(* numbers taken under the tracer's mutex):                                *)
(*   write k d      the row behind key k (plain or index key) now has      *)
(*                  payload d ("" = no row); the key (and the primary key  *)
(*                  of an index key) has been removed from the cache       *)
(*                  (sequential phase: no read of k is pending)            *)
(*   inv r k        reader r calls QueryRow / QueryRowIndex for k          *)
(*   dbb k on / dbe k   a database callback for cache key k is entered /   *)
(*                  left; `on` is the key the calling reader asked for (an *)
(*                  index read may query by index key and by primary key)  *)
(*   ret r k res d  reader r returns ("row" with payload d, or "nf")       *)
(*   keys ks        the set of keys Redis holds at the end of the round    *)
(*   ttl k kind ttl what Redis holds for k at the end of the round         *)
(* What the statement promises about such a trace:                         *)
(*   - at most one database query per cache key in flight (invariant),     *)
(*   - a query is only made on behalf of a pending reader,                 *)
(*   - once a query for k has ended the database is not reached again for  *)
(*     k until the next write (value or placeholder remembered; an index   *)
(*     query that found the row also stores it under its primary key),     *)
(*   - every reader returns the current row / not-found, and only after a  *)
(*     query for the key has ended (the key was uncached),                 *)
(*   - Redis ends up holding exactly the entries of the keys read (no      *)
(*     entry under any other name), with TTLs within +-5 % of the          *)
(*     configured expiry (+ the 5 s gap for a primary entry written by an  *)
(*     index read).                                                        *)
(* A trace that cannot take its next event deadlocks: TLC reports the      *)
(* position l of the first event the specification does not allow.         *)
(***************************************************************************)
EXTENDS Integers, Sequences, FiniteSets, TLC, Json

CONSTANTS TKeys,     \* all cache keys (plain, index and primary keys of pairs)
          Pairs,     \* set of <<index key, primary key>>
          Readers,   \* reader ids
          TE, TNF    \* configured expiry / not-found expiry (s)

TraceLog == ndJsonDeserialize("c06trace.ndjson")

VARIABLES l, cur, inflight, filled, pend

tvars == <<l, cur, inflight, filled, pend>>

TLo(b) == (b * 95 + 99) \div 100     \* ceil(0.95 b)
THi(b) == (b * 105 + 99) \div 100    \* ceil(1.05 b)
TGap == 5

IdxKeys == {pr[1] : pr \in Pairs}
PrimKeys == {pr[2] : pr \in Pairs}
PlainKeys == TKeys \ (IdxKeys \cup PrimKeys)
ReadKeys == PlainKeys \cup IdxKeys          \* keys readers ask for; cur is defined on them
PrimOf(i) == (CHOOSE pr \in Pairs : pr[1] = i)[2]
IdxOf(q) == (CHOOSE pr \in Pairs : pr[2] = q)[1]

TInit == /\ l = 1
         /\ cur = [k \in ReadKeys |-> ""]
         /\ inflight = [k \in TKeys |-> 0]
         /\ filled = [k \in TKeys |-> FALSE]
         /\ pend = [r \in Readers |-> ""]

ev == TraceLog[l]

\* keys removed from the cache by a write of read key k
Wiped(k) == IF k \in IdxKeys THEN {k, PrimOf(k)} ELSE {k}

Write == /\ ev.e = "write"
         /\ ev.k \in ReadKeys
         /\ \A r \in Readers : pend[r] # ev.k
         /\ \A k \in Wiped(ev.k) : inflight[k] = 0
         /\ cur' = [cur EXCEPT ![ev.k] = ev.d]
         /\ filled' = [k \in TKeys |-> IF k \in Wiped(ev.k) THEN FALSE ELSE filled[k]]
         /\ UNCHANGED <<inflight, pend>>

Inv == /\ ev.e = "inv"
       /\ ev.k \in ReadKeys
       /\ pend[ev.r] = ""
       /\ pend' = [pend EXCEPT ![ev.r] = ev.k]
       /\ UNCHANGED <<cur, inflight, filled>>

\* (a second query in flight is accepted here so that the invariant, not a deadlock, reports it)
DbBegin == /\ ev.e = "dbb"
           /\ ev.k \in TKeys
           /\ \E r \in Readers : pend[r] = ev.on
           /\ ev.on = ev.k \/ (ev.on \in IdxKeys /\ ev.k = PrimOf(ev.on))
           /\ ~filled[ev.k]
           /\ inflight' = [inflight EXCEPT ![ev.k] = @ + 1]
           /\ UNCHANGED <<cur, filled, pend>>

\* an index query that found its row has stored the row under the primary key as well
FilledBy(k) == IF k \in IdxKeys /\ cur[k] # "" THEN {k, PrimOf(k)} ELSE {k}

DbEnd == /\ ev.e = "dbe"
         /\ ev.k \in TKeys
         /\ inflight[ev.k] >= 1
         /\ inflight' = [inflight EXCEPT ![ev.k] = @ - 1]
         /\ filled' = [k \in TKeys |-> IF k \in FilledBy(ev.k) THEN TRUE ELSE filled[k]]
         /\ UNCHANGED <<cur, pend>>

Ret == /\ ev.e = "ret"
       /\ ev.k \in ReadKeys
       /\ pend[ev.r] = ev.k
       /\ filled[ev.k]
       /\ IF cur[ev.k] = "" THEN ev.res = "nf" ELSE ev.res = "row" /\ ev.d = cur[ev.k]
       /\ pend' = [pend EXCEPT ![ev.r] = ""]
       /\ UNCHANGED <<cur, inflight, filled>>

\* after both waves every key read is remembered, the primary key of an index key iff its row exists
Expected == ReadKeys \cup {PrimOf(i) : i \in {x \in IdxKeys : cur[x] # ""}}

KeysEv == /\ ev.e = "keys"
          /\ {ev.ks[j] : j \in 1..Len(ev.ks)} = Expected
          /\ UNCHANGED <<cur, inflight, filled, pend>>

Ttl == /\ ev.e = "ttl"
       /\ ev.k \in TKeys
       /\ CASE ev.k \in PlainKeys ->
                 IF cur[ev.k] = "" THEN ev.kind = "placeholder" /\ ev.ttl \in TLo(TNF)..THi(TNF)
                                  ELSE ev.kind = "row" /\ ev.ttl \in TLo(TE)..THi(TE)
            [] ev.k \in IdxKeys ->
                 IF cur[ev.k] = "" THEN ev.kind = "placeholder" /\ ev.ttl \in TLo(TNF)..THi(TNF)
                                  ELSE ev.kind = "primary-id" /\ ev.ttl \in TLo(TE)..THi(TE)
            [] ev.k \in PrimKeys ->
                 cur[IdxOf(ev.k)] # "" /\ ev.kind = "row" /\ (ev.ttl - TGap) \in TLo(TE)..THi(TE)
       /\ UNCHANGED <<cur, inflight, filled, pend>>

TNext == \/ /\ l <= Len(TraceLog)
            /\ l' = l + 1
            /\ (Write \/ Inv \/ DbBegin \/ DbEnd \/ Ret \/ KeysEv \/ Ttl)
         \/ /\ l > Len(TraceLog)
            /\ UNCHANGED tvars

TSpec == TInit /\ [][TNext]_tvars

AtMostOneInFlight == \A k \in TKeys : inflight[k] <= 1
=============================================================================
