----------------------------- MODULE WheelGen -----------------------------
(***************************************************************************)
(* Behaviour generator for Wheel.tla (spec -> code replay, property C10).  *)
(*                                                                         *)
(* A generated behaviour is a sequence of at most MaxOps macro-steps       *)
(*     [pre ticks] ; operation                                             *)
(* followed by a final "finish" step that ticks past every pending due     *)
(* tick plus TailTicks further ticks (so that a task firing late, e.g. a whole  *)
(* revolution late, or twice, is observed).  Every step carries what the   *)
(* abstract wheel says the caller must observe: the set of <<key,value>>   *)
(* pairs fired by each tick, the error class of the operation, the pairs   *)
(* handed to the drain function.  All of it is computed with the step      *)
(* functions of Wheel.tla; the Go driver only compares.                    *)
(***************************************************************************)
EXTENDS Wheel, Json

CONSTANTS MaxOps,   \* number of scheduling operations per behaviour
          Pre,      \* set of tick counts that may precede an operation
          TailTicks,     \* extra ticks after the last due tick in the final step
          Delays,   \* set of delays offered to Set/Move
          Mode      \* "full" | "nobad": which operations are offered

VARIABLES hist, nops, fin

gvars == <<vars, hist, nops, fin>>

\* n ticks from (p, t): the resulting pend and the sequence of fired sets, in closed form
\* (n applications of TickPend/TickFired; a recursive operator is avoided because TLC passes
\* operator arguments by name and re-evaluates them, which is exponential in n).
PendAfter(p, t, n) == [k \in Keys |-> IF p[k].due \in (t + 1)..(t + n) THEN Absent ELSE p[k]]
Fires(p, t, n) == [i \in 1..n |-> Pairs(p, DueAt(p, t + i))]
Run(p, t, n) == [pend |-> PendAfter(p, t, n), fires |-> Fires(p, t, n)]

MaxDue(p) == LET ds == {p[k].due : k \in Keys} IN CHOOSE m \in ds : \A x \in ds : x <= m

GInit == Init /\ hist = <<>> /\ nops = 0 /\ fin = FALSE

\* apply `n` ticks (only meaningful while open) then operation `o`
Macro(n, o) ==
  LET r  == Run(pend, T, n)
      p1 == r.pend
      t1 == T + n
      err == IF closed THEN "closed" ELSE "ok"
  IN
  /\ ~fin /\ nops < MaxOps
  /\ (closed => n = 0)
  /\ nops' = nops + 1
  /\ T' = t1
  /\ UNCHANGED fin
  /\ CASE o.op = "set" ->
            /\ ~drained
            /\ pend' = IF closed THEN p1 ELSE SetPend(p1, t1, o.k, o.v, o.d)
            /\ UNCHANGED <<closed, drained>>
            /\ out' = [op |-> "set", k |-> o.k, v |-> o.v, d |-> o.d, err |-> err, pre |-> r.fires]
       [] o.op = "move" ->
            /\ ~drained
            /\ pend' = IF closed THEN p1 ELSE MovePend(p1, t1, o.k, o.d)
            /\ UNCHANGED <<closed, drained>>
            /\ out' = [op |-> "move", k |-> o.k, d |-> o.d, err |-> err, pre |-> r.fires]
       [] o.op = "remove" ->
            /\ ~drained
            /\ pend' = IF closed THEN p1 ELSE RemovePend(p1, o.k)
            /\ UNCHANGED <<closed, drained>>
            /\ out' = [op |-> "remove", k |-> o.k, err |-> err, pre |-> r.fires]
       [] o.op = "bad" ->
            /\ ~drained /\ ~closed /\ Mode = "full"
            /\ pend' = p1
            /\ UNCHANGED <<closed, drained>>
            /\ out' = [op |-> o.w, err |-> "arg", pre |-> r.fires]
       [] o.op = "drain" ->
            /\ ~drained /\ Mode = "full"
            /\ pend' = IF closed THEN p1 ELSE [k \in Keys |-> Absent]
            /\ drained' = (drained \/ ~closed)
            /\ UNCHANGED closed
            /\ out' = [op |-> "drain", err |-> err, pre |-> r.fires,
                       drained |-> IF closed THEN {} ELSE Pairs(p1, Pending(p1))]
       [] o.op = "stop" ->
            /\ ~closed /\ Mode = "full"
            /\ pend' = p1
            /\ closed' = TRUE
            /\ UNCHANGED drained
            /\ out' = [op |-> "stop", pre |-> r.fires]
  /\ hist' = Append(hist, out')

Ops ==
  {[op |-> "set", k |-> k, v |-> v, d |-> d] : k \in Keys, v \in Vals, d \in Delays}
  \cup {[op |-> "move", k |-> k, d |-> d] : k \in Keys, d \in Delays}
  \cup {[op |-> "remove", k |-> k] : k \in Keys}
  \cup {[op |-> "bad", w |-> w] : w \in BadOps}
  \cup {[op |-> "drain"], [op |-> "stop"]}

\* final step: tick past everything that is pending, then TailTicks more ticks; nothing may fire
\* that the abstract wheel does not fire, in particular nothing after the last due tick.
Finish ==
  /\ ~fin
  /\ nops = MaxOps
  /\ fin' = TRUE
  /\ LET n == IF closed THEN 0 ELSE (IF MaxDue(pend) > T THEN MaxDue(pend) - T ELSE 0) + TailTicks
         r == Run(pend, T, n)
     IN /\ T' = T + n
        /\ pend' = r.pend
        /\ out' = [op |-> "finish", pre |-> r.fires]
  /\ hist' = Append(hist, out')
  /\ UNCHANGED <<closed, drained, nops>>

GNext == (\E n \in Pre, o \in Ops : Macro(n, o)) \/ Finish

GSpec == GInit /\ [][GNext]_gvars

\* one JSON line per complete behaviour (every distinct history is a distinct state)
Emit == fin => PrintT(ToJson(hist))

=============================================================================
