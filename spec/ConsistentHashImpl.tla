------------------------- MODULE ConsistentHashImpl -------------------------
(***************************************************************************)
(* The ring mechanism of lib/hash/consistenthash.go, checked to refine the *)
(* contract of ConsistentHash.tla (C13).                                   *)
(*                                                                         *)
(* The hash function is chosen by TLC: `vpos` places the i-th virtual node *)
(* of every node on a ring of M positions (injective: position collisions  *)
(* between nodes are outside the claim), `kpos` places the probe keys.     *)
(* State mirrors the Go fields: `ring` = the virtual nodes present (keys + *)
(* ring map), `nodes` = the set of added nodes.  Remove(n) deletes the     *)
(* first Base virtual nodes of n if n is in `nodes`; AddWithReplicas       *)
(* removes first, caps at Base, adds the first r virtual nodes; Get takes  *)
(* the first virtual node at or after the key's position, wrapping round.  *)
(* mem/asg/out of ConsistentHash.tla are maintained FROM the mechanism, so *)
(* every invariant and action property of the contract is checked on the   *)
(* mechanism's behaviours, and Refines says every step is a contract step. *)
(***************************************************************************)
EXTENDS ConsistentHash

CONSTANTS M          \* ring positions 0..M-1

VARIABLES ring,      \* set of [pos, node]
          nodes,     \* set of added nodes
          vpos,      \* [Nodes \X 0..Base-1 -> 0..M-1], injective
          kpos       \* [Probe -> 0..M-1]

ivars == <<vars, ring, nodes, vpos, kpos>>
iview == <<ring, nodes, vpos, kpos>>

VN == Nodes \X (0..(Base - 1))

Get(r, p) ==
  IF r = {} THEN None
  ELSE LET ge == {e \in r : e.pos >= p}
           pick(S) == CHOOSE e \in S : \A x \in S : e.pos <= x.pos
       IN (IF ge # {} THEN pick(ge) ELSE pick(r)).node

Lookups(r) == [k \in Probe |-> Get(r, kpos[k])]
Count(r, ns) == [n \in Nodes |-> IF n \in ns THEN Cardinality({e \in r : e.node = n}) ELSE Absent]

Removed(r, n) == r \ {[pos |-> vpos[<<n, i>>], node |-> n] : i \in 0..(Base - 1)}

\* all injective placements are initial states, up to rotation of the ring (Get only uses the
\* cyclic order, so one virtual node can be pinned to position 0)
Pinned == CHOOSE a \in VN : TRUE

IInit ==
  /\ Init
  /\ ring = {} /\ nodes = {}
  /\ vpos \in {f \in [VN -> 0..(M - 1)] : f[Pinned] = 0 /\ \A a, b \in VN : a # b => f[a] # f[b]}
  /\ kpos \in [Probe -> 0..(M - 1)]

IStep(o) ==
  /\ CASE o.op = "lookup" -> UNCHANGED <<ring, nodes>>
       [] o.op = "remove" ->
            IF o.n \in nodes
              THEN ring' = Removed(ring, o.n) /\ nodes' = nodes \ {o.n}
              ELSE UNCHANGED <<ring, nodes>>
       [] OTHER ->
            LET r0 == IF o.n \in nodes THEN Removed(ring, o.n) ELSE ring
            IN /\ ring' = r0 \cup {[pos |-> vpos[<<o.n, i>>], node |-> o.n] : i \in 0..(Eff(o) - 1)}
               /\ nodes' = nodes \cup {o.n}
  /\ mem' = Count(ring', nodes')
  /\ asg' = Lookups(ring')
  /\ out' = o
  /\ UNCHANGED <<vpos, kpos>>

INext == \E o \in Ops : IStep(o)

ISpec == IInit /\ [][INext]_ivars

ITypeOK == TypeOK /\ nodes \subseteq Nodes /\ \A e \in ring : e.node \in nodes

\* every step of the mechanism is a step of the contract
Refines == [][Next]_vars
=============================================================================
