----------------------------- MODULE DiscovImpl -----------------------------
(***************************************************************************)
(* Mechanism-shaped model of lib/discov (property C15), superposed on the  *)
(* abstract Discov.tla: every step of Discov is taken together with what   *)
(* the code does for it, and TLC checks that what the containers then show *)
(* is one of the value lists Discov admits (Refines).                      *)
(*                                                                         *)
(* Transcribed from the code:                                              *)
(*  - cluster.values[key]: `known` (the base of the snapshot diff and of   *)
(*    getCurrent) with `hasBase` = the map entry exists;                   *)
(*  - cluster.handleChanges: first load => everything is added and stored; *)
(*    otherwise remove = base \ snapshot, add = snapshot \ base, adds are  *)
(*    delivered (in map order = any order) before removes; the snapshot is *)
(*    stored back as the new base iff StoreBack (the constant switches     *)
(*    between the intended code and a tree that forgets the assignment);   *)
(*  - cluster.handleWatchEvents: put/delete update the base in place and   *)
(*    call every listener; every Monitor call adds a watch goroutine, a    *)
(*    reload leaves one per key, so an event is handled `nwatch` times;    *)
(*  - Registry.Monitor: a later subscriber is first replayed getCurrent;   *)
(*  - cluster.monitor registers the listener *before* it asks for the      *)
(*    client and does not take it back when that fails: `listened` = the   *)
(*    key has a registered listener, which after a failed first attempt is *)
(*    true although nothing has been loaded and nothing is watched.  Every *)
(*    successful Monitor call loads and watches; the constant JoinSkip     *)
(*    switches to a tree that skips both when a listener is registered     *)
(*    ("the key is already being watched");                                *)
(*  - container.addKv / doRemoveKey: vals[v] = the keys that published v   *)
(*    (the code keeps a slice that may list a key twice; removal drops     *)
(*    every occurrence, so a set is an exact abstraction and keeps the     *)
(*    model finite), keyset = domain of the mapping.                       *)
(* A TLC counterexample here is a lead for the replay driver, never a      *)
(* verdict.                                                                *)
(***************************************************************************)
EXTENDS Discov

CONSTANTS StoreBack, JoinSkip

VARIABLES known, hasBase, nwatch, cont, listened

ivars == <<vars, known, hasBase, nwatch, cont, listened>>
icore == <<core, known, hasBase, nwatch, cont, listened>>

EmptyCont == [vals |-> [v \in Vals |-> {}], keyset |-> {}]

\* container.doRemoveKey
RemoveKey(ct, k) ==
  IF k \notin ct.keyset THEN ct
  ELSE [vals   |-> [ct.vals EXCEPT ![ValOf[k]] = @ \ {k}],
        keyset |-> ct.keyset \ {k}]

\* container.addKv
AddKv(ct, excl, k) ==
  LET v     == ValOf[k]
      early == ct.vals[v] # {}
      base  == IF excl /\ early
                 THEN [vals |-> [ct.vals EXCEPT ![v] = {}], keyset |-> ct.keyset \ ct.vals[v]]
                 ELSE ct
  IN [vals |-> [base.vals EXCEPT ![v] = @ \cup {k}], keyset |-> base.keyset \cup {k}]

OnAdd(cs, ls, k)    == [s \in Subs |-> IF s \in ls THEN AddKv(cs[s], s \in Excl, k) ELSE cs[s]]
OnDelete(cs, ls, k) == [s \in Subs |-> IF s \in ls THEN RemoveKey(cs[s], k) ELSE cs[s]]

\* one watch event handled by one watch goroutine, for the listeners ls
Handle(cs, ls, e) == IF e.op = "put" THEN OnAdd(cs, ls, e.k) ELSE OnDelete(cs, ls, e.k)
HandleSeq(cs, ls, es) == FoldLeft(LAMBDA acc, e : Handle(acc, ls, e), cs, es)
\* the same events arrive on each of n watchers, one watcher after the other
HandleN(cs, ls, es, n) == FoldLeft(LAMBDA acc, i : HandleSeq(acc, ls, es), cs, [i \in 1..n |-> i])

KnownApplySeq(kn, es) == ViewApplySeq(kn, es)

AddsThenRemoves(cs, ls, order, remove) ==
  LET afterAdds == FoldLeft(LAMBDA acc, k : OnAdd(acc, ls, k), cs, order)
  IN FoldLeft(LAMBDA acc, k : OnDelete(acc, ls, k), afterAdds, SetToSeq(remove))

\* cluster.handleChanges for snapshot `snap`, listeners ls; `order` = delivery order of the adds
Adds(snap)    == IF hasBase THEN snap \ known ELSE snap
Removes(snap) == IF hasBase THEN known \ snap ELSE {}
BaseAfter(snap) == IF ~hasBase \/ StoreBack THEN snap ELSE known

Orders(S) == {sq \in [1..Cardinality(S) -> S] : \A i, j \in 1..Cardinality(S) : i # j => sq[i] # sq[j]}

IInit ==
  /\ Init
  /\ known = {} /\ hasBase = FALSE /\ nwatch = 0
  /\ cont = [s \in Subs |-> EmptyCont]
  /\ listened = FALSE

IChange(e) ==
  /\ Change(e)
  /\ IF up
       THEN /\ cont' = HandleN(cont, attached, <<e>>, nwatch)
            /\ known' = IF nwatch > 0 /\ (e.op = "put" \/ hasBase) THEN ViewApply(known, e) ELSE known
            /\ hasBase' = (hasBase \/ (nwatch > 0 /\ e.op = "put"))
       ELSE UNCHANGED <<cont, known, hasBase>>
  /\ UNCHANGED <<nwatch, listened>>

IDisconnect == Disconnect /\ UNCHANGED <<known, hasBase, nwatch, cont, listened>>

IResume ==
  /\ Resume
  /\ cont' = HandleN(cont, attached, backlog, nwatch)
  /\ known' = KnownApplySeq(known, backlog)
  /\ UNCHANGED <<hasBase, nwatch, listened>>

IReload(mid) ==
  /\ Reload(mid)
  /\ \E order \in Orders(Adds(etcd)) :
       cont' = HandleN(AddsThenRemoves(cont, attached, order, Removes(etcd)), attached, mid, 1)
  /\ known' = KnownApplySeq(BaseAfter(etcd), mid)
  /\ hasBase' = TRUE
  /\ nwatch' = 1
  /\ UNCHANGED listened

IAttach(s) ==
  /\ Attach(s)
  /\ listened' = TRUE
  /\ IF JoinSkip /\ listened
       THEN /\ \E replay \in Orders(known) :
                 cont' = FoldLeft(LAMBDA acc, k : OnAdd(acc, {s}, k), cont, replay)
            /\ UNCHANGED <<known, hasBase, nwatch>>
       ELSE /\ \E replay \in Orders(IF attached # {} THEN known ELSE {}), order \in Orders(Adds(etcd)) :
                 LET replayed == FoldLeft(LAMBDA acc, k : OnAdd(acc, {s}, k), cont, replay)
                 IN cont' = AddsThenRemoves(replayed, attached \cup {s}, order, Removes(etcd))
            /\ known' = BaseAfter(etcd)
            /\ hasBase' = TRUE
            /\ nwatch' = nwatch + 1

\* the listener of the failed attempt stays registered (its container is never read again)
IAttachFail(s) ==
  /\ AttachFail(s)
  /\ listened' = TRUE
  /\ UNCHANGED <<known, hasBase, nwatch, cont>>

INext ==
  \/ \E k \in Keys : (IdFree(etcd, k) /\ IChange(Ev("put", k))) \/ (k \in etcd /\ IChange(Ev("del", k)))
  \/ IDisconnect \/ IResume
  \/ \E m \in Mids : IReload(m)
  \/ \E s \in Subs : IAttach(s) \/ IAttachFail(s)

ISpec == IInit /\ [][INext]_ivars

ImplValues(s) == {v \in Vals : cont[s].vals[v] # {}}

\* what the containers show is admitted by the abstract specification, in every state
Refines == \A s \in attached : ImplValues(s) \in Allowed(s)

\* the base of the next diff is what has been delivered (fails without StoreBack)
BaseIsView == (attached # {}) => known = view

=============================================================================
