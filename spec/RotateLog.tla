------------------------------ MODULE RotateLog ------------------------------
(***************************************************************************)
(* Rotating log writer (property C19; lib/logx/rotatelogger.go).           *)
(*                                                                         *)
(* The state is the log directory as the statement sees it:                *)
(*   cur   the records (ids) in the current log file, in file order,       *)
(*   cb    its size in bytes,                                              *)
(*   bks   the backups, oldest first (ordered by the time their name       *)
(*         carries): [ts, ageh, recs, gz],                                 *)
(* plus, for the NoLoss bookkeeping of the abstract model, `written` (all  *)
(* records processed, in order) and `gone` (records of backups removed by  *)
(* clean-up).  A configuration c is a record                               *)
(*   [rule : {"daily","size"}, maxSize (bytes, 0 = none), maxBackups,      *)
(*    days, gzip : BOOLEAN, slack (hours subtracted from a backup's age    *)
(*    before it is compared with `days`; 0 in all current uses)].          *)
(*                                                                         *)
(* The statement fixes NO rotation instants: it bounds the growth of a     *)
(* file under the size rule, and says what rotations and clean-ups must    *)
(* preserve.  So Write may rotate first whenever it likes; it MUST rotate  *)
(* first when the current file is already beyond the maximum (it may grow  *)
(* beyond it by at most one record).  Clean-up happens only with a         *)
(* rotation and removes any subset of the outdated backups - never         *)
(* anything else.                                                          *)
(*                                                                         *)
(* StepFailed is the same relation in checkable form: given a state and an *)
(* OBSERVED next directory it names the clauses the step violates.  The    *)
(* abstract model below is checked to produce only steps with              *)
(* StepFailed = {} (so the relation is not stronger than the model), and   *)
(* RotateLogTrace.tla applies it to the directory states recorded from the *)
(* real logger.                                                            *)
(***************************************************************************)
EXTENDS RotateLogRel

(* ---------------------------------------------------------------- abstract model *)

CONSTANTS Configs,    \* set of configurations
          Sizes,      \* record sizes offered to Write
          MaxRecs,    \* records per behaviour
          Pre         \* pre-existing backups: sequence of [ts, ageh, recs, gz], oldest first

VARIABLES cfg, cur, cb, bks, written, gone, nrot, closed, out

vars == <<cfg, cur, cb, bks, written, gone, nrot, closed, out>>
core == <<cfg, cur, cb, bks, written, gone, nrot, closed>>

Init ==
  /\ cfg \in Configs
  /\ cur = << >> /\ cb = 0
  /\ bks = Pre
  /\ written = << >> /\ gone = {} /\ nrot = 0
  /\ closed = FALSE
  /\ out = [op |-> "init"]

SeqOfSet(S) == \* the elements of a set of backups ordered by ts (unique)
  LET n == Cardinality(S)
  IN [i \in 1..n |-> CHOOSE b \in S : Cardinality({x \in S : x.ts < b.ts}) = i - 1]

\* Write without rotation
WriteStay(id, size) ==
  /\ ~MustRotate(cfg, cb)
  /\ cur' = Append(cur, id) /\ cb' = cb + size
  /\ UNCHANGED <<bks, gone, nrot>>

\* Write with a rotation first; the new backup is the newest; clean-up removes `rm`
WriteRotate(id, size) ==
  LET nb  == [ts |-> nrot + 1, ageh |-> 0, recs |-> cur, gz |-> cfg.gzip]
      all == Range(bks) \cup {nb}
  IN \E rm \in SUBSET Outdated(cfg, all) :
       /\ bks' = SeqOfSet(all \ rm)
       /\ gone' = gone \cup UNION {Range(b.recs) : b \in rm}
       /\ cur' = <<id>> /\ cb' = size
       /\ nrot' = nrot + 1

\* Write, then a rotation: the record closes the new backup
WriteThenRotate(id, size) ==
  LET nb  == [ts |-> nrot + 1, ageh |-> 0, recs |-> Append(cur, id), gz |-> cfg.gzip]
      all == Range(bks) \cup {nb}
  IN /\ ~MustRotate(cfg, cb)
     /\ \E rm \in SUBSET Outdated(cfg, all) :
          /\ bks' = SeqOfSet(all \ rm)
          /\ gone' = gone \cup UNION {Range(b.recs) : b \in rm}
          /\ cur' = << >> /\ cb' = 0
          /\ nrot' = nrot + 1

Write(size) ==
  LET id == Len(written) + 1 IN
  /\ ~closed /\ Len(written) < MaxRecs
  /\ (WriteStay(id, size) \/ WriteRotate(id, size) \/ WriteThenRotate(id, size))
  /\ written' = Append(written, id)
  /\ out' = [op |-> "write", id |-> id, size |-> size]
  /\ UNCHANGED <<cfg, closed>>

Close ==
  /\ ~closed /\ closed' = TRUE
  /\ out' = [op |-> "close"]
  /\ UNCHANGED <<cfg, cur, cb, bks, written, gone, nrot>>

Next == (\E s \in Sizes : Write(s)) \/ Close

Spec == Init /\ [][Next]_vars

(* ---------------------------------------------------------------- properties *)

Flat(bs) == \* concatenation of the records of a sequence of backups
  LET F[i \in 0..Len(bs)] == IF i = 0 THEN << >> ELSE F[i - 1] \o bs[i].recs IN F[Len(bs)]

Keep(seq, S) == SelectSeq(seq, LAMBDA x : x \notin S)

PreRecs == UNION {Range(Pre[i].recs) : i \in DOMAIN Pre}

\* every processed record is present, once, in order, in a backup or the current file -
\* except those of whole backups removed as outdated
NoLoss == Keep(Flat(bks) \o cur, PreRecs) = Keep(written, gone)

\* under the size rule a file grows beyond the maximum by at most one record: what was in the
\* current file before the record just appended fits the maximum (a backup is a former current file)
SizeBound ==
  [][(out'.op = "write" /\ cfg.rule = "size" /\ cfg.maxSize > 0) =>
       /\ Len(cur') > 1 => cb' - out'.size <= cfg.maxSize
       /\ (cur' = << >> /\ Len(cur) > 0) => cb <= cfg.maxSize]_vars

\* clean-up never removes a backup that is not outdated, and nothing is removed without a rotation
Retention ==
  [][LET removed == {b \in Range(bks) : b.ts \notin {x.ts : x \in Range(bks')}}
     IN /\ removed \subseteq Outdated(cfg, Range(bks) \cup Range(bks'))
        /\ (removed # {} => nrot' = nrot + 1)]_vars

\* the checkable relation admits every step of the model (it is not stronger than the model)
RelationAdmitsModel ==
  [][out'.op = "write" =>
       StepFailed(cfg, cur, cb, bks, out'.id, out'.size, cur', cb', bks') = {}]_vars

TypeOK ==
  /\ cb \in Nat /\ closed \in BOOLEAN /\ nrot \in Nat
  /\ \A i \in DOMAIN bks : bks[i].ts \in Int /\ bks[i].gz \in BOOLEAN
  /\ \A i, j \in DOMAIN bks : i < j => bks[i].ts < bks[j].ts
=============================================================================
