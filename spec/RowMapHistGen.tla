---------------------------- MODULE RowMapHistGen ----------------------------
(* History generator for RowMapHist.tla (property C11): one JSON array per   *)
(* complete history; every element is one query with its destination type    *)
(* (declaration id, printed name, layout), access path, result set and the   *)
(* allowed outcomes.                                                         *)
EXTENDS RowMapHist, Json

Emit == done => PrintT(ToJson(hist))
=============================================================================
