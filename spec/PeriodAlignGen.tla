--------------------------- MODULE PeriodAlignGen ---------------------------
(***************************************************************************)
(* Table of PeriodLimit!AlignedWindow for the wall-clock seconds in which  *)
(* the driver is going to run (C08, Align option).  The driver reads the   *)
(* window length that the real limiter hands to Redis (ARGV[2] of the EVAL *)
(* recorded by miniredis) and looks it up here.                            *)
(***************************************************************************)
EXTENDS Integers, TLC, Json

CONSTANTS T0, Span, Offsets, Periods

VARIABLE row

AlignedWindow(unix, offset, p) == p - ((unix + offset) % p)     \* = PeriodLimit!AlignedWindow

Init == row \in [off : Offsets, period : Periods]
Next == UNCHANGED row
Spec == Init /\ [][Next]_row

Emit == PrintT(ToJson([off |-> row.off, period |-> row.period, t0 |-> T0,
                       win |-> [i \in 1..Span |-> AlignedWindow(T0 + i - 1, row.off, row.period)]]))
=============================================================================
