---------------------------- MODULE TokenLimit ----------------------------
(***************************************************************************)
(* Token limiter (property C08, second and third sentence;                 *)
(* lib/limit/tokenlimit.go).                                               *)
(*                                                                         *)
(* Two clocks, both in whole seconds: `now` is the clock supplied by the   *)
(* caller with every request, `srv` is the Redis server's clock, which     *)
(* only drives the TTL of the two bucket keys.  The statement's bucket     *)
(* (capacity burst, refilled with rate tokens per caller second, granted   *)
(* iff n tokens are available) is kept as the *ideal* bucket `ib`; the     *)
(* mechanism state is what the Lua script keeps in Redis (`tok`, `ts`,     *)
(* `ttlx`) and what the in-process rescue limiter keeps (`rtok`, `rlast`). *)
(*                                                                         *)
(* Properties:                                                             *)
(*   ScriptIsIdeal  every decision taken by Redis equals the ideal         *)
(*                  bucket's decision (server clock never ahead of the     *)
(*                  caller clock: Tick(dc, ds) has ds <= dc, see DESIGN 5) *)
(*   Bound          within the grants decided by one bucket, the events    *)
(*                  admitted between second s and s+t are <= burst+rate*t  *)
(*   Fallback       while Redis is unreachable (and once the failure has   *)
(*                  been seen) decisions are the rescue bucket's           *)
(*   Return         after Up and the monitor's successful ping decisions   *)
(*                  are Redis' again                                       *)
(*                                                                         *)
(* Real (wall-clock) time is a third clock the statement does not mention: *)
(* the bucket counts in seconds of the clock supplied by the caller, and   *)
(* "returns to Redis once it answers again" holds however long the outage  *)
(* has lasted.  Wait(h) - h ms of real time pass while Redis is            *)
(* unreachable - therefore changes nothing of the state; it is a step of   *)
(* its own so that generated behaviours carry the outage DURATION as an    *)
(* input (the mechanism waits on a 100 ms wall-clock ticker: a monitor     *)
(* that gives up, or whose pings stop succeeding after a while, satisfies  *)
(* Return for short outages only).                                         *)
(***************************************************************************)
EXTENDS Integers, Sequences, FiniteSets, TLC

CONSTANTS Configs,   \* set of <<rate, burst>> with 2*burst >= rate, rate >= 1, burst >= 1
          MaxN,      \* largest request size
          MaxStep,   \* largest single clock advance
          Holds      \* real-time durations (ms) an outage may be held for (may be empty)

VARIABLES rate, burst,
          now, srv,          \* caller clock, server clock
          tok, ts, ttlx,     \* Redis: {key}.tokens, {key}.ts, server second of expiry (0 = keys absent)
          alive,             \* Redis reachable
          mode,              \* "redis" | "rescue"   (redisAlive flag of the limiter)
          mon,               \* monitor goroutine running
          rtok, rlast, rused,\* rescue bucket (x/time/rate): tokens, last update, ever used
          ib,                \* ideal bucket for the Redis-decided requests: [tok, last]
          glog,              \* grants: sequence of [t, n, by]   by \in {"redis","rescue"}
          out

vars == <<rate, burst, now, srv, tok, ts, ttlx, alive, mode, mon, rtok, rlast, rused, ib, glog, out>>
core == <<rate, burst, now, srv, tok, ts, ttlx, alive, mode, mon, rtok, rlast, rused, ib, glog>>

Min(a, b) == IF a < b THEN a ELSE b
Max(a, b) == IF a > b THEN a ELSE b

TTL == (2 * burst) \div rate       \* math.floor(capacity/rate*2)

Init ==
  /\ \E c \in Configs : rate = c[1] /\ burst = c[2]
  /\ now = 0 /\ srv = 0
  /\ tok = 0 /\ ts = 0 /\ ttlx = 0
  /\ alive = TRUE /\ mode = "redis" /\ mon = FALSE
  /\ rtok = 0 /\ rlast = 0 /\ rused = FALSE
  /\ ib = [tok |-> burst, last |-> 0]
  /\ glog = <<>>
  /\ out = [op |-> "cfg", rate |-> rate, burst |-> burst]

(* ----------------------------------------------------------- step functions *)

Present == ttlx # 0

\* the Lua script
Filled == LET lt == IF Present THEN tok ELSE burst
              lr == IF Present THEN ts ELSE 0
          IN Min(burst, lt + Max(0, now - lr) * rate)
ScriptGrants(n) == Filled >= n

\* the statement's bucket
IdealFilled == Min(burst, ib.tok + Max(0, now - ib.last) * rate)
IdealGrants(n) == IdealFilled >= n

\* x/time/rate: a limiter that was never used is full
RescueFilled == IF rused THEN Min(burst, rtok + Max(0, now - rlast) * rate) ELSE burst
RescueGrants(n) == RescueFilled >= n

(* ----------------------------------------------------------- actions *)

ByRedis(n) ==
  /\ tok' = IF ScriptGrants(n) THEN Filled - n ELSE Filled
  /\ ts' = now
  /\ ttlx' = srv + TTL
  /\ ib' = [tok |-> IF IdealGrants(n) THEN IdealFilled - n ELSE IdealFilled, last |-> now]
  /\ glog' = IF ScriptGrants(n) THEN Append(glog, [t |-> now, n |-> n, by |-> "redis"]) ELSE glog
  /\ out' = [op |-> "allow", n |-> n, granted |-> ScriptGrants(n), via |-> "redis", ideal |-> IdealGrants(n)]
  /\ UNCHANGED <<rtok, rlast, rused, mode, mon>>

ByRescue(n) ==
  /\ rtok' = IF RescueGrants(n) THEN RescueFilled - n ELSE RescueFilled
  /\ rlast' = now
  /\ rused' = TRUE
  /\ glog' = IF RescueGrants(n) THEN Append(glog, [t |-> now, n |-> n, by |-> "rescue"]) ELSE glog
  /\ out' = [op |-> "allow", n |-> n, granted |-> RescueGrants(n), via |-> "rescue", ideal |-> RescueGrants(n)]
  /\ UNCHANGED <<tok, ts, ttlx, ib>>

Allow(n) ==
  /\ UNCHANGED <<rate, burst, now, srv, alive>>
  /\ IF mode = "rescue"
       THEN ByRescue(n) /\ UNCHANGED <<mode, mon>>
       ELSE IF alive
              THEN ByRedis(n)
              ELSE \* the script call fails: start the monitor, decide in process
                   ByRescue(n) /\ mode' = "rescue" /\ mon' = TRUE

\* the clocks advance; the server's never by more than the caller's (DESIGN section 5)
Tick(dc, ds) ==
  /\ now' = now + dc
  /\ srv' = srv + ds
  /\ ttlx' = IF Present /\ srv + ds >= ttlx THEN 0 ELSE ttlx
  /\ out' = [op |-> "tick", dc |-> dc, ds |-> ds]
  /\ UNCHANGED <<rate, burst, tok, ts, alive, mode, mon, rtok, rlast, rused, ib, glog>>

Down ==
  /\ alive
  /\ alive' = FALSE
  /\ out' = [op |-> "down"]
  /\ UNCHANGED <<rate, burst, now, srv, tok, ts, ttlx, mode, mon, rtok, rlast, rused, ib, glog>>

Up ==
  /\ ~alive
  /\ alive' = TRUE
  /\ out' = [op |-> "up", ping |-> FALSE]
  /\ UNCHANGED <<rate, burst, now, srv, tok, ts, ttlx, mode, mon, rtok, rlast, rused, ib, glog>>

\* the monitor's ping succeeds
Ping ==
  /\ mon /\ alive
  /\ mode' = "redis" /\ mon' = FALSE
  /\ out' = [op |-> "ping"]
  /\ UNCHANGED <<rate, burst, now, srv, tok, ts, ttlx, alive, rtok, rlast, rused, ib, glog>>

\* h ms of real time pass during an outage: neither clock of the statement moves, nothing changes
Wait(h) ==
  /\ ~alive
  /\ out' = [op |-> "hold", ms |-> h]
  /\ UNCHANGED core

Next ==
  \/ \E n \in 1..MaxN : Allow(n)
  \/ \E h \in Holds : Wait(h)
  \/ \E dc \in 1..MaxStep, ds \in 0..MaxStep : ds <= dc /\ Tick(dc, ds)
  \/ Down \/ Up \/ Ping

Spec == Init /\ [][Next]_vars

(* ----------------------------------------------------------- the property *)

TypeOK ==
  /\ tok \in 0..burst /\ rtok \in 0..burst /\ ib.tok \in 0..burst
  /\ mode \in {"redis", "rescue"} /\ alive \in BOOLEAN /\ mon \in BOOLEAN
  /\ (mode = "rescue") = mon
  /\ 2 * burst >= rate /\ TTL >= 1

\* every decision taken by Redis is the ideal bucket's decision
ScriptIsIdeal == (out.op = "allow" /\ out.via = "redis") => out.granted = out.ideal

\* as long as Redis holds the keys they are the ideal bucket; once they have expired the ideal
\* bucket has refilled completely
RedisIsIdeal ==
  IF Present THEN tok = ib.tok /\ ts = ib.last
  ELSE Min(burst, ib.tok + Max(0, now - ib.last) * rate) = burst

\* burst + rate * t, per bucket
Bound ==
  \A by \in {"redis", "rescue"} :
    LET G == SelectSeq(glog, LAMBDA g : g.by = by)
        Sum[j \in 0..Len(G)] == IF j = 0 THEN 0 ELSE Sum[j - 1] + G[j].n
    IN \A i \in 1..Len(G) : \A j \in i..Len(G) :
          Sum[j] - Sum[i - 1] <= burst + rate * (G[j].t - G[i].t)

Fallback == [][(out'.op = "allow" /\ (mode = "rescue" \/ ~alive)) => out'.via = "rescue"]_vars
Return   == [][(out'.op = "allow" /\ mode = "redis" /\ alive) => out'.via = "redis"]_vars
\* the limiter goes back to Redis only through a successful ping, and pings only while Redis answers
OnlyPingReturns == [][(mode = "rescue" /\ mode' = "redis") => (out'.op = "ping" /\ alive)]_vars

\* At frozen clocks the deciding bucket is a counter: an Allow step grants iff the request fits into what is
\* available and takes exactly the granted tokens from it.  Hence Allow steps between two clock steps commute
\* (any order of the same grants and denials in which the denials come last is again a behaviour if one order
\* is) - the reduction used by TokenLimitConc.tla for rounds with many grants.
Avail == IF mode = "rescue" \/ ~alive THEN RescueFilled ELSE Filled
AllowExact ==
  [][out'.op = "allow" =>
       /\ out'.granted = (Avail >= out'.n)
       /\ Avail' = Avail - (IF out'.granted THEN out'.n ELSE 0)]_vars

\* A denial leaves the deciding bucket at a fixpoint: the same request repeated at the same clocks is
\* denied again and changes nothing any more.  (TokenLimitConc.tla relies on it to explain all equal
\* denied requests of concurrent callers within one caller second in a single step.)
DenialIdempotent ==
  [][(out'.op = "allow" /\ ~out'.granted) =>
       IF out'.via = "redis"
         THEN /\ Filled' = tok' /\ Filled' < out'.n /\ ts' = now' /\ ttlx' = srv' + TTL'
              /\ IdealFilled' = ib'.tok /\ ib'.last = now'
         ELSE /\ RescueFilled' = rtok' /\ RescueFilled' < out'.n /\ rlast' = now' /\ rused']_vars

=============================================================================
