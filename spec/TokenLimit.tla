---------------------------- MODULE TokenLimit ----------------------------
(***************************************************************************)
(* Token limiter (property C08, second and third sentence;                 *)
(* lib/limit/tokenlimit.go).                                               *)
(*                                                                         *)
(* Two clocks, both in whole seconds: `now` is the clock supplied by the   *)
(* caller with every request, `srv` is the Redis server's clock, which     *)
(* only drives the TTL of the two bucket keys.  The statement's bucket     *)
(* (capacity burst, refilled with rate tokens per caller second, granted   *)
(* iff n tokens are available) is kept as the *ideal* bucket `ib`; the     *)
(* mechanism state is what the Lua script keeps in Redis (`tok`, `ts`,     *)
(* `ttlx`) and what the in-process rescue limiter keeps (`rtok`, `rlast`). *)
(*                                                                         *)
(* Properties:                                                             *)
(*   ScriptIsIdeal  every decision taken by Redis equals the ideal         *)
(*                  bucket's decision (server clock never ahead of the     *)
(*                  caller clock: Tick(dc, ds) has ds <= dc, see DESIGN 5) *)
(*   Bound          within the grants decided by one bucket, the events    *)
(*                  admitted between second s and s+t are <= burst+rate*t  *)
(*   Fallback       while Redis is unreachable (and once the failure has   *)
(*                  been seen) decisions are the rescue bucket's           *)
(*   Return         after Up and the monitor's successful ping decisions   *)
(*                  are Redis' again                                       *)
(*                                                                         *)
(* Real (wall-clock) time is a third clock the statement does not mention: *)
(* the bucket counts in seconds of the clock supplied by the caller, and   *)
(* "returns to Redis once it answers again" holds however long the outage  *)
(* has lasted.  Wait(h) - h ms of real time pass while Redis is            *)
(* unreachable - therefore changes nothing of the state; it is a step of   *)
(* its own so that generated behaviours carry the outage DURATION as an    *)
(* input (the mechanism waits on a 100 ms wall-clock ticker: a monitor     *)
(* that gives up, or whose pings stop succeeding after a while, satisfies  *)
(* Return for short outages only).                                         *)
(*                                                                         *)
(* The in-process bucket "of the same rate and burst" is refilled          *)
(* continuously (golang.org/x/time/rate) from the clock the caller         *)
(* supplies, at that clock's full resolution.  The caller clock therefore  *)
(* has a millisecond part `sub` (Step(d): d ms pass): the Redis script     *)
(* sees the whole second `now` only ("time counted in whole seconds"), the *)
(* rescue bucket sees NowMs and is kept in MILLItokens - rate tokens per   *)
(* second are rate millitokens per millisecond, so the arithmetic is exact *)
(* for every rate, whether or not it divides 1000 or exceeds it.           *)
(* The statement counts time in whole seconds and asks for "an in-process  *)
(* bucket of the same rate and burst": a bucket refilled once per caller   *)
(* second (like the script's) satisfies it as well as one refilled         *)
(* continuously (neither holds more than the other at all times: the       *)
(* counted one is ahead just after a second boundary, behind before it).   *)
(* The specification therefore keeps both - the COUNTED bucket (qtok,      *)
(* qlast: whole tokens and seconds) next to the continuous one - and       *)
(* decides a request only where the two readings agree (RescueFirm):       *)
(* granted if both hold n tokens, denied if neither does.  Where they      *)
(* differ the statement leaves the choice and the model has no step.  On   *)
(* behaviours in whole seconds the two are the same bucket.  Further, a    *)
(* mechanism on a nanosecond clock cannot hit a token    *)
(* interval of 1/rate s exactly: RescueSlack bounds what an interval       *)
(* shortened by less than 1 ns adds since the bucket was last full, and a  *)
(* denial closer than that to the threshold is not firm either.            *)
(***************************************************************************)
EXTENDS Integers, Sequences, FiniteSets, TLC

CONSTANTS Configs,   \* set of <<rate, burst>> with 2*burst >= rate, rate >= 1, burst >= 1
          MaxN,      \* largest request size
          MaxStep,   \* largest single clock advance
          Holds,     \* real-time durations (ms) an outage may be held for (may be empty)
          MsSteps,   \* advances of the caller clock in milliseconds (may be empty)
          EdgeK,     \* token counts k whose refill instants 1000*k/rate ms (rounded down and up) are further Step sizes
          LongSteps, \* whole-second clock advances beyond 1..MaxStep (long outages; may be empty)
          Wide       \* BOOLEAN: request sizes also relative to the bucket: all it holds, one more, burst + 1

VARIABLES rate, burst,
          now, sub, srv,     \* caller clock (second, millisecond within it), server clock
          tok, ts, ttlx,     \* Redis: {key}.tokens, {key}.ts, server second of expiry (0 = keys absent)
          alive,             \* Redis reachable
          mode,              \* "redis" | "rescue"   (redisAlive flag of the limiter)
          mon,               \* monitor goroutine running
          rtok, rlast, rused,\* rescue bucket (x/time/rate): MILLItokens, caller ms of the last update, ever used
          rfull,             \* caller ms at which the rescue bucket was last seen full
          qtok, qlast,       \* the same bucket with time counted in whole caller seconds: tokens, second of the last update
          ib,                \* ideal bucket for the Redis-decided requests: [tok, last]
          glog,              \* grants: sequence of [t, n, by]   by \in {"redis","rescue"}
          out

vars == <<rate, burst, now, sub, srv, tok, ts, ttlx, alive, mode, mon, rtok, rlast, rused, rfull, qtok, qlast, ib, glog, out>>
core == <<rate, burst, now, sub, srv, tok, ts, ttlx, alive, mode, mon, rtok, rlast, rused, rfull, qtok, qlast, ib, glog>>

Min(a, b) == IF a < b THEN a ELSE b
Max(a, b) == IF a > b THEN a ELSE b

TTL == (2 * burst) \div rate       \* math.floor(capacity/rate*2)

Init ==
  /\ \E c \in Configs : rate = c[1] /\ burst = c[2]
  /\ now = 0 /\ sub = 0 /\ srv = 0
  /\ tok = 0 /\ ts = 0 /\ ttlx = 0
  /\ alive = TRUE /\ mode = "redis" /\ mon = FALSE
  /\ rtok = 0 /\ rlast = 0 /\ rused = FALSE /\ rfull = 0 /\ qtok = 0 /\ qlast = 0
  /\ ib = [tok |-> burst, last |-> 0]
  /\ glog = <<>>
  /\ out = [op |-> "cfg", rate |-> rate, burst |-> burst]

(* ----------------------------------------------------------- step functions *)

Present == ttlx # 0

\* the Lua script
Filled == LET lt == IF Present THEN tok ELSE burst
              lr == IF Present THEN ts ELSE 0
          IN Min(burst, lt + Max(0, now - lr) * rate)
ScriptGrants(n) == Filled >= n

\* the statement's bucket
IdealFilled == Min(burst, ib.tok + Max(0, now - ib.last) * rate)
IdealGrants(n) == IdealFilled >= n

\* the in-process bucket, in millitokens on the caller clock in milliseconds; a limiter that was never used is full
\* (x/time/rate).  FullMs: after that many ms every bucket is full (keeps the products small, TLC has 32-bit integers)
NowMs  == now * 1000 + sub
Cap    == burst * 1000
FullMs == (Cap + rate - 1) \div rate
RescueElapsed == Max(0, NowMs - rlast)
RescueFilled == IF ~rused \/ RescueElapsed >= FullMs THEN Cap ELSE Min(Cap, rtok + RescueElapsed * rate)
RescueGrants(n) == RescueFilled >= n * 1000
\* A token interval of 1/rate s realised on a nanosecond clock is short by less than 1 ns, the rate high by less than
\* rate/10^9 of itself: since the bucket was last full (T ms ago) that adds less than rate^2 * T / 10^9 millitokens.
\* (no firm denials after more than SlackHorizon seconds of demand that never let the bucket fill up: 32-bit integers)
SlackHorizon == 80000
SinceFull == (NowMs - rfull) \div 1000 + 1
RescueSlack == 1 + (((rate * rate) \div 1000 + 1) * Min(SinceFull, SlackHorizon)) \div 1000
\* the counted reading: refilled with rate tokens per whole caller second
CountedFilled == IF ~rused \/ (now - qlast) * 1000 >= FullMs THEN burst ELSE Min(burst, qtok + Max(0, now - qlast) * rate)
\* decided by the statement: both readings grant, or both deny (the continuous one by more than the slack)
RescueFirm(n) == \/ CountedFilled >= n /\ RescueGrants(n)
                 \/ CountedFilled < n /\ SinceFull <= SlackHorizon /\ RescueFilled + RescueSlack < n * 1000

(* ----------------------------------------------------------- actions *)

ByRedis(n) ==
  /\ tok' = IF ScriptGrants(n) THEN Filled - n ELSE Filled
  /\ ts' = now
  /\ ttlx' = srv + TTL
  /\ ib' = [tok |-> IF IdealGrants(n) THEN IdealFilled - n ELSE IdealFilled, last |-> now]
  /\ glog' = IF ScriptGrants(n) THEN Append(glog, [t |-> now, ms |-> NowMs, n |-> n, by |-> "redis"]) ELSE glog
  /\ out' = [op |-> "allow", n |-> n, granted |-> ScriptGrants(n), via |-> "redis", ideal |-> IdealGrants(n)]
  /\ UNCHANGED <<rtok, rlast, rused, rfull, qtok, qlast, mode, mon>>

ByRescue(n) ==
  /\ RescueFirm(n)
  /\ qtok' = IF RescueGrants(n) THEN CountedFilled - n ELSE CountedFilled
  /\ qlast' = now
  /\ rtok' = IF RescueGrants(n) THEN RescueFilled - n * 1000 ELSE RescueFilled
  /\ rlast' = NowMs
  /\ rused' = TRUE
  /\ rfull' = IF RescueFilled = Cap THEN NowMs ELSE rfull
  /\ glog' = IF RescueGrants(n) THEN Append(glog, [t |-> now, ms |-> NowMs, n |-> n, by |-> "rescue"]) ELSE glog
  /\ out' = [op |-> "allow", n |-> n, granted |-> RescueGrants(n), via |-> "rescue", ideal |-> RescueGrants(n)]
  /\ UNCHANGED <<tok, ts, ttlx, ib>>

Allow(n) ==
  /\ UNCHANGED <<rate, burst, now, sub, srv, alive>>
  /\ IF mode = "rescue"
       THEN ByRescue(n) /\ UNCHANGED <<mode, mon>>
       ELSE IF alive
              THEN ByRedis(n)
              ELSE \* the script call fails: start the monitor, decide in process
                   ByRescue(n) /\ mode' = "rescue" /\ mon' = TRUE

\* the clocks advance; the server's never by more than the caller's (DESIGN section 5)
Tick(dc, ds) ==
  /\ now' = now + dc
  /\ srv' = srv + ds
  /\ ttlx' = IF Present /\ srv + ds >= ttlx THEN 0 ELSE ttlx
  /\ out' = [op |-> "tick", dc |-> dc, ds |-> ds]
  /\ UNCHANGED <<rate, burst, sub, tok, ts, alive, mode, mon, rtok, rlast, rused, rfull, qtok, qlast, ib, glog>>

\* d milliseconds pass on the caller clock (the server clock counts whole seconds and stays behind)
Step(d) ==
  /\ now' = now + (sub + d) \div 1000
  /\ sub' = (sub + d) % 1000
  /\ out' = [op |-> "step", ms |-> d]
  /\ UNCHANGED <<rate, burst, srv, tok, ts, ttlx, alive, mode, mon, rtok, rlast, rused, rfull, qtok, qlast, ib, glog>>

Down ==
  /\ alive
  /\ alive' = FALSE
  /\ out' = [op |-> "down"]
  /\ UNCHANGED <<rate, burst, now, sub, srv, tok, ts, ttlx, mode, mon, rtok, rlast, rused, rfull, qtok, qlast, ib, glog>>

Up ==
  /\ ~alive
  /\ alive' = TRUE
  /\ out' = [op |-> "up", ping |-> FALSE]
  /\ UNCHANGED <<rate, burst, now, sub, srv, tok, ts, ttlx, mode, mon, rtok, rlast, rused, rfull, qtok, qlast, ib, glog>>

\* the monitor's ping succeeds
Ping ==
  /\ mon /\ alive
  /\ mode' = "redis" /\ mon' = FALSE
  /\ out' = [op |-> "ping"]
  /\ UNCHANGED <<rate, burst, now, sub, srv, tok, ts, ttlx, alive, rtok, rlast, rused, rfull, qtok, qlast, ib, glog>>

\* h ms of real time pass during an outage: neither clock of the statement moves, nothing changes
Wait(h) ==
  /\ ~alive
  /\ out' = [op |-> "hold", ms |-> h]
  /\ UNCHANGED core

\* request sizes: 1..MaxN and, if Wide, the boundary values of the grant rule in the current state - everything the
\* deciding bucket holds (must be granted), one more (must be denied) - for the in-process bucket in either reading -
\* and burst + 1 (can never be granted)
Holding == IF mode = "rescue" \/ ~alive THEN {CountedFilled, CountedFilled + 1, RescueFilled \div 1000, RescueFilled \div 1000 + 1}
           ELSE {Filled, Filled + 1}
Sizes == (1..MaxN) \cup (IF Wide THEN (Holding \cup {burst + 1}) \cap (1..(burst + 1)) ELSE {})
\* millisecond steps: MsSteps and the refill instants of the k-th token, k \in EdgeK, rounded down and up to whole ms
StepSizes == (MsSteps \cup {(1000 * k) \div rate : k \in EdgeK} \cup {(1000 * k + rate - 1) \div rate : k \in EdgeK}) \ {0}
Seconds == (1..MaxStep) \cup LongSteps
\* the server clock never ahead of the caller clock; with a long step it stands still or keeps up
TickPair(dc, ds) == ds <= dc /\ (dc \in LongSteps \ (1..MaxStep) => ds \in {0, dc})

Next ==
  \/ \E n \in Sizes : Allow(n)
  \/ \E h \in Holds : Wait(h)
  \/ \E dc \in Seconds, ds \in {0} \cup Seconds : TickPair(dc, ds) /\ Tick(dc, ds)
  \/ \E d \in StepSizes : Step(d)
  \/ Down \/ Up \/ Ping

Spec == Init /\ [][Next]_vars

(* ----------------------------------------------------------- the property *)

TypeOK ==
  /\ tok \in 0..burst /\ rtok \in 0..Cap /\ ib.tok \in 0..burst /\ sub \in 0..999
  /\ rlast <= NowMs /\ rfull <= NowMs /\ qtok \in 0..burst /\ qlast <= now
  /\ mode \in {"redis", "rescue"} /\ alive \in BOOLEAN /\ mon \in BOOLEAN
  /\ (mode = "rescue") = mon
  /\ 2 * burst >= rate /\ TTL >= 1

\* every decision taken by Redis is the ideal bucket's decision
ScriptIsIdeal == (out.op = "allow" /\ out.via = "redis") => out.granted = out.ideal

\* as long as Redis holds the keys they are the ideal bucket; once they have expired the ideal
\* bucket has refilled completely
RedisIsIdeal ==
  IF Present THEN tok = ib.tok /\ ts = ib.last
  ELSE Min(burst, ib.tok + Max(0, now - ib.last) * rate) = burst

\* burst + rate * t, per bucket: whole caller seconds for the Redis bucket, real-valued t (in ms) for the in-process one
Bound ==
  \A by \in {"redis", "rescue"} :
    LET G == SelectSeq(glog, LAMBDA g : g.by = by)
        Sum[j \in 0..Len(G)] == IF j = 0 THEN 0 ELSE Sum[j - 1] + G[j].n
    IN \A i \in 1..Len(G) : \A j \in i..Len(G) :
          IF by = "redis" THEN Sum[j] - Sum[i - 1] <= burst + rate * (G[j].t - G[i].t)
          ELSE 1000 * (Sum[j] - Sum[i - 1]) <= 1000 * burst + rate * (G[j].ms - G[i].ms)

\* ... and not less: what has been refilled in the whole caller seconds since the deciding bucket's last decision
\* (up to burst) is granted
NotStarved ==
  [][(out'.op = "allow" /\ out'.n <= burst) =>
       IF out'.via = "rescue"
         THEN (rused /\ out'.n <= rate * (now - qlast)) => out'.granted
         ELSE (Present /\ out'.n <= rate * (now - ts)) => out'.granted]_vars

\* both readings of the in-process bucket agree with every decision that is a step of the model
ReadingsAgree ==
  [][(out'.op = "allow" /\ (mode = "rescue" \/ ~alive)) =>
       /\ out'.granted = (CountedFilled >= out'.n)
       /\ out'.granted = (RescueFilled >= out'.n * 1000)]_vars

Fallback == [][(out'.op = "allow" /\ (mode = "rescue" \/ ~alive)) => out'.via = "rescue"]_vars
Return   == [][(out'.op = "allow" /\ mode = "redis" /\ alive) => out'.via = "redis"]_vars
\* the limiter goes back to Redis only through a successful ping, and pings only while Redis answers
OnlyPingReturns == [][(mode = "rescue" /\ mode' = "redis") => (out'.op = "ping" /\ alive)]_vars

\* At frozen clocks the deciding bucket is a counter: an Allow step grants iff the request fits into what is
\* available and takes exactly the granted tokens from it.  Hence Allow steps between two clock steps commute
\* (any order of the same grants and denials in which the denials come last is again a behaviour if one order
\* is) - the reduction used by TokenLimitConc.tla for rounds with many grants.
Avail == IF mode = "rescue" \/ ~alive THEN RescueFilled ELSE Filled * 1000      \* millitokens
AllowExact ==
  [][out'.op = "allow" =>
       /\ out'.granted = (Avail >= out'.n * 1000)
       /\ Avail' = Avail - (IF out'.granted THEN out'.n * 1000 ELSE 0)]_vars

\* A denial leaves the deciding bucket at a fixpoint: the same request repeated at the same clocks is
\* denied again and changes nothing any more.  (TokenLimitConc.tla relies on it to explain all equal
\* denied requests of concurrent callers within one caller second in a single step.)
DenialIdempotent ==
  [][(out'.op = "allow" /\ ~out'.granted) =>
       IF out'.via = "redis"
         THEN /\ Filled' = tok' /\ Filled' < out'.n /\ ts' = now' /\ ttlx' = srv' + TTL'
              /\ IdealFilled' = ib'.tok /\ ib'.last = now'
         ELSE /\ RescueFilled' = rtok' /\ RescueFilled' < out'.n * 1000 /\ rlast' = NowMs' /\ rused']_vars

=============================================================================
