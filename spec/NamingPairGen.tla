--------------------------- MODULE NamingPairGen ---------------------------
(***************************************************************************)
(* Collision family for property C20 ("the result depends on nothing but   *)
(* these inputs").                                                         *)
(*                                                                         *)
(* One character string can be read as (template, identifier) in many      *)
(* ways: cut at position p, the first p characters are the template, the   *)
(* rest the identifier.  All these pairs have the same concatenation but   *)
(* different promised results: cut inside or before the 'designer' word    *)
(* the template lacks a word and must be rejected, cut after it the text   *)
(* after the word is the template's suffix.  An implementation whose       *)
(* answer depends on anything beyond the two inputs separately (earlier    *)
(* calls, the concatenation) is exposed when the pairs of one string are   *)
(* evaluated one after the other in one process.                           *)
(*                                                                         *)
(* The state of Naming (the identifier under construction) is used as the  *)
(* tail appended to each base template of Bases; for every tail one JSON   *)
(* line is printed with, per base, every cut from just after the 'go' word *)
(* to the end of the string: template, identifier (inputs) and the         *)
(* promised file name or rejection (output) of that pair alone.            *)
(***************************************************************************)
EXTENDS Naming, Json

CONSTANTS Bases        \* set of valid base templates

BaseSeq == SetToSeq(Bases)
ASSUME \A b \in Bases : Parse(b).valid

FirstCut(b) == FirstIndex(GoWord, b) + 1      \* the template is exactly prefix + 'go'

Pair(s, p) ==
  LET t == SubSeq(s, 1, p)
      i == SubSeq(s, p + 1, Len(s))
      r == Render(t, i)
  IN IF r.e THEN [t |-> t, id |-> i, e |-> TRUE] ELSE [t |-> t, id |-> i, e |-> FALSE, s |-> r.s]

Splits(s, from) == [k \in 1..(Len(s) - from + 1) |-> Pair(s, from + k - 1)]

Emit == PrintT(ToJson([tail |-> id,
                       fam |-> [b \in 1..Len(BaseSeq) |-> Splits(BaseSeq[b] \o id, FirstCut(BaseSeq[b]))]]))

\* sanity of the family: every string offers a rejected and an accepted reading and every reading
\* concatenates to the same string
Collides ==
  \A b \in 1..Len(BaseSeq) :
    LET sp == Splits(BaseSeq[b] \o id, FirstCut(BaseSeq[b]))
    IN /\ \E k \in 1..Len(sp) : sp[k].e
       /\ \E k \in 1..Len(sp) : ~sp[k].e
       /\ \A k \in 1..Len(sp) : sp[k].t \o sp[k].id = BaseSeq[b] \o id

=============================================================================
