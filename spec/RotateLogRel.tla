---------------------------- MODULE RotateLogRel ----------------------------
(***************************************************************************)
(* Constant-level part of the rotating-log specification (C19): the        *)
(* retention predicate and the step relation in checkable form.  Used by   *)
(* RotateLog.tla (abstract model, which is checked to produce only steps   *)
(* the relation admits) and by RotateLogTrace.tla (applied to directory    *)
(* states recorded from the real logger).  See RotateLog.tla for the       *)
(* meaning of a configuration c and of a backup record [ts, ageh, recs,    *)
(* gz].                                                                    *)
(***************************************************************************)
EXTENDS Integers, Sequences, FiniteSets, TLC

Range(s) == {s[i] : i \in DOMAIN s}

(* ---------------------------------------------------------------- retention *)

\* older than the retention days.  ageh is the age in hours of the time the backup's NAME carries;
\* c.slack (hours) is subtracted first: 0 for timestamp names (size rule: the name is the moment
\* the file was started, every record in it is younger, but the statement's "older than" is read
\* off the name), 24 for date names (daily rule): a backup named by a date D holds records up to
\* the END of D, so it is older than N days only if the end of D lies N days back.
Older(c, b) == c.days > 0 /\ b.ageh - c.slack >= 24 * c.days

\* not among the newest maxBackups backups (size rule only)
BeyondMax(c, B, b) ==
  /\ c.rule = "size" /\ c.maxBackups > 0
  /\ Cardinality({x \in B : x.ts > b.ts}) >= c.maxBackups

\* the backups clean-up may remove
Outdated(c, B) == {b \in B : Older(c, b) \/ BeyondMax(c, B, b)}

\* must the writer rotate before appending to a current file of cb bytes?
MustRotate(c, cb) == c.rule = "size" /\ c.maxSize > 0 /\ cb > c.maxSize

(* ---------------------------------------------------------------- step relation *)

\* two directory listings hold the same records in the same backups
SameFiles(bs1, bs2) ==
  /\ Len(bs1) = Len(bs2)
  /\ \A i \in DOMAIN bs1 : bs1[i].ts = bs2[i].ts /\ bs1[i].recs = bs2[i].recs

\* concatenation of the records of a sequence of backups
FlatRecs(bs) ==
  LET F[i \in 0..Len(bs)] == IF i = 0 THEN << >> ELSE F[i - 1] \o bs[i].recs IN F[Len(bs)]

\* Several writes `ids` (in this order) with NO barrier between them - they race the
\* post-rotation compress / clean-up goroutine - observed once, at quiescence, as (cur2, cb2,
\* clast, bks2); clast / b.last = size of the last record of the file, b.bytes = its size.
\* any number of rotations may have happened.  all = TRUE: every record must be there (they
\* were all processed: barrier).  all = FALSE: Close was called while they were queued - the
\* statement promises nothing for records not processed before Close, so any of them may be
\* missing; those present are in order, and everything processed earlier is intact.
\* (Generated only for configurations in which a backup created during the step cannot itself
\* be outdated: maxBackups = 0 or >= the number of writes.)
\* The relation does not depend on the length of ids: a "flood" (RotateLogGen!GFloods) is a burst
\* of one producer that is several times longer than the writer's queue, so that Write finds the
\* queue full; the order of acceptance is the order of ids.  burst-content is the exact claim
\* (present, complete, once, in order); burst-order is added when only the order is wrong.
BurstFailed(c, cur, bks, ids, all, cur2, cb2, clast, bks2) ==
  LET B       == Range(bks)
      B2      == Range(bks2)
      oldTs   == {b.ts : b \in B}
      fresh   == SelectSeq(bks2, LAMBDA b : b.ts \notin oldTs)
      kept    == {b \in B2 : b.ts \in oldTs}
      removed == {b \in B : b.ts \notin {x.ts : x \in B2}}
      R       == FlatRecs(fresh) \o cur2
      RS      == Range(R)                          \* (named: TLC then builds the set once, not once per id)
      W       == IF all THEN ids ELSE SelectSeq(ids, LAMBDA x : x \in RS)
      sized   == c.rule = "size" /\ c.maxSize > 0
      E       == cur \o W                          \* what the new files must hold, in this order
      perm    == /\ Len(R) = Len(E) /\ Range(R) = Range(E)
                 /\ Cardinality(Range(R)) = Len(R) /\ Cardinality(Range(E)) = Len(E)
  IN  (IF R = E THEN {} ELSE {"burst-content"})
      \* every record is there, complete and once, but not in the order in which Write accepted them
      \* (a burst may be longer than the writer's queue: the producer then finds the queue full)
      \cup (IF R # E /\ perm THEN {"burst-order"} ELSE {})
      \cup (IF c.gzip => \A b \in Range(fresh) : b.gz THEN {} ELSE {"compression"})
      \cup (IF \A b2 \in kept : \E b \in B : b.ts = b2.ts /\ b.recs = b2.recs THEN {} ELSE {"backup-changed"})
      \cup (IF removed \subseteq Outdated(c, B \cup Range(fresh)) THEN {} ELSE {"removed-not-outdated"})
      \cup (IF sized => /\ \A b \in Range(fresh) : Len(b.recs) > 1 => b.bytes - b.last <= c.maxSize
                        /\ Len(cur2) > 1 => cb2 - clast <= c.maxSize
              THEN {} ELSE {"size-bound"})

\* A write of record `id` (0 = an empty record: nothing to find in the files) of `size` bytes
\* takes (cur, cb, bks) to the observed (cur2, cb2, bks2).  A rotation may come before the
\* record is appended (the record opens the new current file) or after it (the record closes
\* the backup): the statement allows both.  Names of the violated clauses:
StepFailed(c, cur, cb, bks, id, size, cur2, cb2, bks2) ==
  LET B       == Range(bks)
      B2      == Range(bks2)
      oldTs   == {b.ts : b \in B}
      fresh   == {b \in B2 : b.ts \notin oldTs}
      kept    == {b \in B2 : b.ts \in oldTs}
      removed == {b \in B : b.ts \notin {x.ts : x \in B2}}
      rot     == fresh # {}
      rec     == IF id = 0 THEN << >> ELSE <<id>>
      after   == rot /\ id # 0 /\ cur2 = << >>      \* rotated after appending
  IN  \* the record is somewhere
      (IF id # 0 /\ id \notin (Range(cur2) \cup UNION {Range(b.recs) : b \in fresh}) THEN {"record-lost"} ELSE {})
      \* it is in the current file (or closes the new backup), complete, after everything
      \* written since the last rotation
      \cup (IF cur2 = (IF rot THEN (IF after THEN << >> ELSE rec) ELSE cur \o rec) THEN {} ELSE {"current-file"})
      \cup (IF cb2 = (IF rot THEN (IF after THEN 0 ELSE size) ELSE cb + size) THEN {} ELSE {"current-bytes"})
      \* a rotation moves exactly the old current file into exactly one new backup
      \cup (IF rot => (Cardinality(fresh) = 1 /\ \A b \in fresh : b.recs = (IF after THEN cur \o rec ELSE cur))
              THEN {} ELSE {"rotated-content"})
      \cup (IF (rot /\ c.gzip) => \A b \in fresh : b.gz THEN {} ELSE {"compression"})
      \* other backups keep their records (they may get compressed: content-preserving)
      \cup (IF \A b2 \in kept : \E b \in B : b.ts = b2.ts /\ b.recs = b2.recs THEN {} ELSE {"backup-changed"})
      \* clean-up removes only outdated backups
      \cup (IF removed \subseteq Outdated(c, B \cup fresh) THEN {} ELSE {"removed-not-outdated"})
      \* size rule: beyond the maximum by at most one record
      \cup (IF (~rot \/ after) => ~MustRotate(c, cb) THEN {} ELSE {"size-bound"})

=============================================================================
