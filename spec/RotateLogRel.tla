---------------------------- MODULE RotateLogRel ----------------------------
(***************************************************************************)
(* Constant-level part of the rotating-log specification (C19): the        *)
(* retention predicate and the step relation in checkable form.  Used by   *)
(* RotateLog.tla (abstract model, which is checked to produce only steps   *)
(* the relation admits) and by RotateLogTrace.tla (applied to directory    *)
(* states recorded from the real logger).  See RotateLog.tla for the       *)
(* meaning of a configuration c and of a backup record [ts, ageh, recs,    *)
(* gz].                                                                    *)
(***************************************************************************)
EXTENDS Integers, Sequences, FiniteSets, TLC

Range(s) == {s[i] : i \in DOMAIN s}

(* ---------------------------------------------------------------- retention *)

\* older than the retention days (an hour-granular age, see the trace driver)
Older(c, b) == c.days > 0 /\ b.ageh - c.slack >= 24 * c.days

\* not among the newest maxBackups backups (size rule only)
BeyondMax(c, B, b) ==
  /\ c.rule = "size" /\ c.maxBackups > 0
  /\ Cardinality({x \in B : x.ts > b.ts}) >= c.maxBackups

\* the backups clean-up may remove
Outdated(c, B) == {b \in B : Older(c, b) \/ BeyondMax(c, B, b)}

\* must the writer rotate before appending to a current file of cb bytes?
MustRotate(c, cb) == c.rule = "size" /\ c.maxSize > 0 /\ cb > c.maxSize

(* ---------------------------------------------------------------- step relation *)

\* A write of record `id` (0 = an empty record: nothing to find in the files) of `size` bytes
\* takes (cur, cb, bks) to the observed (cur2, cb2, bks2).  Names of the violated clauses:
StepFailed(c, cur, cb, bks, id, size, cur2, cb2, bks2) ==
  LET B       == Range(bks)
      B2      == Range(bks2)
      oldTs   == {b.ts : b \in B}
      fresh   == {b \in B2 : b.ts \notin oldTs}
      kept    == {b \in B2 : b.ts \in oldTs}
      removed == {b \in B : b.ts \notin {x.ts : x \in B2}}
      rot     == fresh # {}
      rec     == IF id = 0 THEN << >> ELSE <<id>>
  IN  \* the record is in the current file, complete, after everything written since the last rotation
      (IF cur2 = (IF rot THEN rec ELSE cur \o rec) THEN {} ELSE {"current-file"})
      \cup (IF cb2 = (IF rot THEN size ELSE cb + size) THEN {} ELSE {"current-bytes"})
      \* a rotation moves exactly the old current file into exactly one new backup
      \cup (IF rot => (Cardinality(fresh) = 1 /\ \A b \in fresh : b.recs = cur) THEN {} ELSE {"rotated-content"})
      \cup (IF rot => \A b \in fresh : b.gz = c.gzip THEN {} ELSE {"compression"})
      \* other backups are left as they are
      \cup (IF kept \subseteq B THEN {} ELSE {"backup-changed"})
      \* clean-up: only with a rotation, only outdated backups
      \cup (IF removed # {} => rot THEN {} ELSE {"removed-without-rotation"})
      \cup (IF removed \subseteq Outdated(c, B \cup fresh) THEN {} ELSE {"removed-not-outdated"})
      \* size rule: beyond the maximum by at most one record
      \cup (IF ~rot => ~MustRotate(c, cb) THEN {} ELSE {"size-bound"})

=============================================================================
