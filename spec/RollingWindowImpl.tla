------------------------- MODULE RollingWindowImpl -------------------------
(***************************************************************************)
(* Mechanism-shaped transcription of lib/collection/rollingwindow.go       *)
(* (ring of Size buckets, offset, lastTime, span(), updateOffset(),        *)
(* Reduce()) and its refinement of RollingWindow.tla.                      *)
(*                                                                         *)
(*   span()          = (now - lastTime) \div Q, capped to Size             *)
(*   updateOffset()  = reset the span buckets after offset, advance offset,*)
(*                     realign lastTime to the bucket boundary             *)
(*   Add(v)          = updateOffset(); ring[offset] += v                   *)
(*   Reduce(fn)      = no state change; hands Size - span buckets starting *)
(*                     at offset + span + 1 (Size - 1 buckets when the     *)
(*                     current one is ignored and span = 0) to fn          *)
(*                                                                         *)
(* The ring is updated lazily (only by Add), so between Adds it contains   *)
(* expired buckets that Reduce must skip: the refinement mapping AbsBk     *)
(* reads the ring through the elapsed time exactly like Reduce does.       *)
(* TLC checks  Spec => Abs!Spec  (every step of the mechanism is a step of *)
(* the abstract window, including the reported reduction).                 *)
(***************************************************************************)
EXTENDS Integers, Sequences, FiniteSets, TLC, SequencesExt

CONSTANTS Size, Q, IgnoreCurrent, Advances, Vals

VARIABLES now, ring, offset, lastTime, log, out

vars == <<now, ring, offset, lastTime, log, out>>
core == <<now, ring, offset, lastTime, log>>

Empty == [sum |-> 0, count |-> 0]
Pos == 0..(Size - 1)

Span(t) == LET o == (t - lastTime) \div Q IN IF 0 <= o /\ o < Size THEN o ELSE Size

\* ring after updateOffset() at instant t
ResetSet(t) == {(offset + i + 1) % Size : i \in 0..(Span(t) - 1)}
RingAfterUpdate(t) == [p \in Pos |-> IF Span(t) > 0 /\ p \in ResetSet(t) THEN Empty ELSE ring[p]]
OffsetAfterUpdate(t) == IF Span(t) > 0 THEN (offset + Span(t)) % Size ELSE offset
LastAfterUpdate(t) == IF Span(t) > 0 THEN t - ((t - lastTime) % Q) ELSE lastTime

\* the buckets Reduce hands to its callback, in ring order
ReduceSeq ==
  LET span == Span(now)
      diff == IF span = 0 /\ IgnoreCurrent THEN Size - 1 ELSE Size - span
      start == (offset + span + 1) % Size
  IN [i \in 1..(IF diff > 0 THEN diff ELSE 0) |-> ring[(start + i - 1) % Size]]

NonEmpty(s) == SelectSeq(s, LAMBDA b : b.count > 0)

Init ==
  /\ now = 0
  /\ ring = [p \in Pos |-> Empty]
  /\ offset = 0
  /\ lastTime = 0
  /\ log = <<>>
  /\ out = [op |-> "init"]

Advance(d) ==
  /\ now' = now + d
  /\ out' = [op |-> "advance", d |-> d]
  /\ UNCHANGED <<ring, offset, lastTime, log>>

Add(v) ==
  /\ offset' = OffsetAfterUpdate(now)
  /\ lastTime' = LastAfterUpdate(now)
  /\ ring' = [RingAfterUpdate(now) EXCEPT ![OffsetAfterUpdate(now)] = [sum |-> @.sum + v, count |-> @.count + 1]]
  /\ log' = Append(log, [t |-> now, v |-> v])
  /\ out' = [op |-> "add", v |-> v]
  /\ UNCHANGED now

Reduce ==
  /\ out' = [op |-> "reduce", buckets |-> NonEmpty(ReduceSeq),
             sum |-> FoldSeq(LAMBDA e, acc : acc + e.sum, 0, ReduceSeq),
             count |-> FoldSeq(LAMBDA e, acc : acc + e.count, 0, ReduceSeq)]
  /\ UNCHANGED core

Next ==
  \/ \E d \in Advances : Advance(d)
  \/ \E v \in Vals : Add(v)
  \/ Reduce

Spec == Init /\ [][Next]_vars

(* ------------------------------------------------------------ refinement *)

\* lastTime is the start of the bucket that `offset` holds; its index:
Held == lastTime \div Q
\* the abstract bucket of age j: index Cur(now) - j.  It is newer than anything written
\* (index > Held) -> empty; otherwise it sits (Held - index) positions behind offset, unless it
\* is too old to be in the ring at all.
AbsBk ==
  [j \in Pos |->
     LET idx == (now \div Q) - j
         back == Held - idx IN
     IF back < 0 \/ back >= Size THEN Empty ELSE ring[(offset - back + Size) % Size]]

Abs == INSTANCE RollingWindow WITH bk <- AbsBk

Refines == Abs!Spec
AbsExact == Abs!Exact
AbsReduceExact == Abs!ReduceExact

\* sanity of the mechanism's own bookkeeping
Aligned == lastTime % Q = 0 /\ lastTime <= now /\ offset \in Pos

=============================================================================
