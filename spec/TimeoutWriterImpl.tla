-------------------------- MODULE TimeoutWriterImpl --------------------------
(***************************************************************************)
(* Mechanism model of api/handler/timeouthandler.go (property C02) with    *)
(* the RecoverHandler that engine.bindRoute places directly inside it.     *)
(*                                                                         *)
(* Processes (every action is one critical section / channel operation):   *)
(*   handler  the goroutine started by timeoutHandler.ServeHTTP; one       *)
(*            action per script element.  Header().Set touches tw.h        *)
(*            without the lock; WriteHeader / Write are the bodies of      *)
(*            timeoutWriter.WriteHeader / Write under tw.mu (lines         *)
(*            142-178); Finish = close(done); Panic (also: WriteHeader     *)
(*            with an invalid code, which panics in checkWriteHeaderCode   *)
(*            before touching any field and, the Unlock being deferred,    *)
(*            leaves tw.mu free) = recovered by                            *)
(*            RecoverHandler, which calls tw.WriteHeader(500) and returns  *)
(*            (so done is closed), or - RecoverInside = FALSE - sent to    *)
(*            panicChan by the deferred recover of the goroutine.          *)
(*   timer    context.WithTimeout expiring; client: the parent context     *)
(*            being cancelled.  Whichever comes first fixes ctx.Err().     *)
(*   server   the select of ServeHTTP (line 82) - it may take any ready    *)
(*            branch - followed by the branch body under tw.mu: done =     *)
(*            copy tw.h, WriteHeader(code), Write(wbuf) on the real        *)
(*            writer; ctx.Done = write 503/499 + reason on the real writer *)
(*            and set timedOut; panicChan = re-panic.  Handler steps may   *)
(*            happen between the select and the branch body.               *)
(*                                                                         *)
(* `under` is the sequence of responses written to the real ResponseWriter.*)
(* Checked over all scripts up to MaxSteps and all interleavings:          *)
(*   OneWriter        under is written at most once, exactly once when     *)
(*                    ServeHTTP returns normally;                          *)
(*   UnderExpected    the response is in ServerGuards!Expected for the way *)
(*                    handler and deadline were ordered; when both the     *)
(*                    handler's end and the deadline had happened by the   *)
(*                    time of the select either outcome is allowed;        *)
(*   NoLeak           a timeout response carries no handler header/byte;   *)
(*   QuietAfterTimeout  once timedOut is set nothing reaches under;        *)
(*   Returns          ServeHTTP returns even if the handler stalls.        *)
(***************************************************************************)
EXTENDS Integers, Sequences, FiniteSets, TLC

CONSTANTS Hdrs, Codes, Chunks, MaxSteps, RecoverInside

\* the abstract module is used for its operators only; its variables are not part of this model
SG == INSTANCE ServerGuards WITH Rids <- {1}, Reqs <- {}, Cfgs <- {},
        cfg <- 0, req <- 0, phase <- 0, pos <- 0, buf <- 0, cause <- 0, tag <- 0, resp <- 0,
        ran <- 0, full <- 0, inside <- 0

VARIABLES steps, term,         \* the handler's script
          hpc,                 \* script elements executed (Len+1 = terminal executed)
          recovering,          \* RecoverHandler is about to write 500
          h, wbuf, code, wroteHeader, timedOut,       \* timeoutWriter fields
          doneCh, panicCh,     \* close(done) happened / panicChan holds a value
          ctx,                 \* "live" | "deadline" | "cancel"
          spc,                 \* server: "select" | "done" | "ctx" | "panic" | "ret" | "repanic"
          under,               \* responses written to the real writer: [by, status, hdrs, body]
          selDone, selFired    \* what was ready when the select was taken

vars == <<steps, term, hpc, recovering, h, wbuf, code, wroteHeader, timedOut, doneCh, panicCh, ctx, spc,
          under, selDone, selFired>>

N == Len(steps)

Init ==
  /\ steps \in SG!Scripts(MaxSteps)
  /\ term \in SG!Terms \cup {"bad0"}       \* the invalid codes are interchangeable here
  /\ hpc = 0 /\ recovering = FALSE
  /\ h = {} /\ wbuf = <<>> /\ code = 0 /\ wroteHeader = FALSE /\ timedOut = FALSE
  /\ doneCh = FALSE /\ panicCh = FALSE
  /\ ctx = "live"
  /\ spc = "select"
  /\ under = <<>>
  /\ selDone = FALSE /\ selFired = FALSE

(* ------------------------------------------------------------ timeoutWriter methods (under tw.mu) *)

\* writeHeaderLocked
WriteHeaderLocked(c) ==
  IF timedOut \/ wroteHeader
    THEN UNCHANGED <<wroteHeader, code>>
    ELSE wroteHeader' = TRUE /\ code' = c

TwWriteHeader(c) == WriteHeaderLocked(c) /\ UNCHANGED wbuf

TwWrite(k) ==
  IF timedOut
    THEN UNCHANGED <<wroteHeader, code, wbuf>>            \* http.ErrHandlerTimeout
    ELSE /\ (IF wroteHeader THEN UNCHANGED <<wroteHeader, code>> ELSE wroteHeader' = TRUE /\ code' = 200)
         /\ wbuf' = Append(wbuf, k)

(* ------------------------------------------------------------ handler goroutine *)

HandlerStep ==
  /\ hpc < N /\ ~recovering
  /\ LET s == steps[hpc + 1] IN
       CASE s.op = "hdr"    -> h' = h \cup {s.h} /\ UNCHANGED <<wbuf, code, wroteHeader>>
         [] s.op = "status" -> TwWriteHeader(s.c) /\ UNCHANGED h
         [] s.op = "write"  -> TwWrite(s.k) /\ UNCHANGED h
  /\ hpc' = hpc + 1
  /\ UNCHANGED <<steps, term, recovering, timedOut, doneCh, panicCh, ctx, spc, under, selDone, selFired>>

HandlerEnd ==
  /\ hpc = N /\ ~recovering
  /\ hpc' = N + 1
  /\ CASE term = "finish" -> doneCh' = TRUE /\ UNCHANGED <<panicCh, recovering>>
       [] SG!Panics(term) /\ RecoverInside  -> recovering' = TRUE /\ UNCHANGED <<doneCh, panicCh>>
       [] SG!Panics(term) /\ ~RecoverInside -> panicCh' = TRUE /\ UNCHANGED <<doneCh, recovering>>
  /\ UNCHANGED <<steps, term, h, wbuf, code, wroteHeader, timedOut, ctx, spc, under, selDone, selFired>>

\* RecoverHandler: w.WriteHeader(500) on the timeoutWriter, then it returns normally: close(done)
RecoverWrites ==
  /\ recovering
  /\ TwWriteHeader(500)
  /\ recovering' = FALSE
  /\ doneCh' = TRUE
  /\ UNCHANGED <<steps, term, hpc, h, timedOut, panicCh, ctx, spc, under, selDone, selFired>>

Handler == HandlerStep \/ HandlerEnd \/ RecoverWrites

(* ------------------------------------------------------------ deadline / client *)

Fire(c) ==
  /\ ctx = "live" /\ spc # "ret" /\ spc # "repanic"
  /\ ctx' = c
  /\ UNCHANGED <<steps, term, hpc, recovering, h, wbuf, code, wroteHeader, timedOut, doneCh, panicCh, spc, under,
                 selDone, selFired>>

(* ------------------------------------------------------------ ServeHTTP *)

Select ==
  /\ spc = "select"
  /\ \/ panicCh /\ spc' = "panic"
     \/ doneCh /\ spc' = "done"
     \/ ctx # "live" /\ spc' = "ctx"
  /\ selDone' = doneCh /\ selFired' = (ctx # "live")
  /\ UNCHANGED <<steps, term, hpc, recovering, h, wbuf, code, wroteHeader, timedOut, doneCh, panicCh, ctx, under>>

DoneBranch ==
  /\ spc = "done"
  /\ under' = Append(under, [by |-> "done", status |-> IF wroteHeader THEN code ELSE 200, hdrs |-> h, body |-> wbuf])
  /\ spc' = "ret"
  /\ UNCHANGED <<steps, term, hpc, recovering, h, wbuf, code, wroteHeader, timedOut, doneCh, panicCh, ctx, selDone, selFired>>

CtxBranch ==
  /\ spc = "ctx"
  /\ under' = Append(under, [by |-> "ctx", status |-> IF ctx = "cancel" THEN 499 ELSE 503, hdrs |-> {}, body |-> <<>>])
  /\ timedOut' = TRUE
  /\ spc' = "ret"
  /\ UNCHANGED <<steps, term, hpc, recovering, h, wbuf, code, wroteHeader, doneCh, panicCh, ctx, selDone, selFired>>

PanicBranch ==
  /\ spc = "panic"
  /\ spc' = "repanic"          \* panic(p) in the caller's goroutine: left to whatever wraps the handler
  /\ UNCHANGED <<steps, term, hpc, recovering, h, wbuf, code, wroteHeader, timedOut, doneCh, panicCh, ctx, under, selDone, selFired>>

Server == Select \/ DoneBranch \/ CtxBranch \/ PanicBranch

Next == Handler \/ Fire("deadline") \/ Fire("cancel") \/ Server

\* the server goroutine and the timer are fair; the handler may stall for ever
Spec == Init /\ [][Next]_vars /\ WF_vars(Server) /\ WF_vars(Fire("deadline"))

(* ------------------------------------------------------------ properties *)

Returned == spc \in {"ret", "repanic"}

OneWriter ==
  /\ Len(under) <= 1
  /\ (spc = "ret" => Len(under) = 1)
  /\ (spc # "ret" => under = <<>>)

Proj(e) == [status |-> e.status, hdrs |-> e.hdrs, body |-> e.body]
Visible == [status |-> under[1].status, hdrs |-> under[1].hdrs, body |-> under[1].body]

Cfg0 == [maxConns |-> 1, maxBytes |-> 0, timeout |-> TRUE]
InTimeSet == {Proj(e) : e \in SG!Expected(SG!Tagged(SG!Req(0, steps, term), N + 1, "none"), Cfg0, FALSE)}
TimeoutSet == {Proj(e) : e \in SG!Expected(SG!Tagged(SG!Req(0, steps, term), 0, ctx), Cfg0, FALSE)}

UnderExpected ==
  spc = "ret" =>
    Visible \in (IF ~selFired THEN InTimeSet ELSE IF ~selDone THEN TimeoutSet ELSE InTimeSet \cup TimeoutSet)

\* which branch wrote it agrees with what it is
BranchAgrees ==
  spc = "ret" => /\ (under[1].by = "done" => selDone /\ Visible \in InTimeSet)
                 /\ (under[1].by = "ctx"  => selFired /\ Visible \in TimeoutSet)

NoLeak == \A i \in 1..Len(under) : under[i].by = "ctx" => under[i].hdrs = {} /\ under[i].body = <<>>

QuietAfterTimeout == [][timedOut => under' = under]_vars

\* with RecoverHandler inside, the panic channel is never used and ServeHTTP never re-panics
NoRepanic == RecoverInside => spc # "repanic" /\ ~panicCh

Returns == <>Returned

=============================================================================
