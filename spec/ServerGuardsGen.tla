--------------------------- MODULE ServerGuardsGen ---------------------------
(***************************************************************************)
(* Scenario generator for ServerGuards.tla (spec -> code replay, C02).     *)
(*                                                                         *)
(* Mode "script": one request (Rids = {1}); every maximal behaviour of the *)
(*   abstract machine is one scenario: a request, the point of its script  *)
(*   at which the deadline/cancel falls (tag), and the set of responses    *)
(*   the statement allows.  The final states are in bijection with the     *)
(*   scenarios, so one JSON line is printed per scenario.                  *)
(* Mode "conns": histories of at most MaxOps operations                    *)
(*   enter (a new request arrives; it is either let inside, where it       *)
(*   stays until released, or answered at once) and release (a request     *)
(*   inside finishes) with, per operation, the allowed answers and the     *)
(*   number of requests inside afterwards.  No deadline in this mode.      *)
(* Mode "rpc": the unary RPC scenarios with their allowed gRPC codes, as   *)
(*   one JSON array.                                                       *)
(* All expectations are computed by ServerGuards' operators.               *)
(***************************************************************************)
EXTENDS ServerGuards, Json

CONSTANTS Mode, MaxOps

VARIABLES hist

gvars == <<vars, hist>>

\* expectation as shipped to the driver: either "any complete response" or the explicit set
ExpJson(rq, c, f) ==
  IF IsAny(rq, c, f) THEN [any |-> TRUE, set |-> {}] ELSE [any |-> FALSE, set |-> Expected(rq, c, f)]

GInit == Init /\ hist = <<>>

\* ---------------------------------------------------------------- script mode
ScriptNext == Next /\ UNCHANGED hist

ScriptDone == \A r \in Rids : phase[r] = "done"

ScriptRecord ==
  LET r == CHOOSE x \in Rids : TRUE
      rq == Tagged(req[r], tag[r], cause[r])
  IN [mode |-> "script", cfg |-> cfg, cl |-> rq.cl, steps |-> rq.steps, term |-> rq.term,
      npre |-> rq.npre, cause |-> rq.cause, runs |-> ran[r], exp |-> ExpJson(rq, cfg, full[r]),
      sub |-> SubChains(rq, cfg, full[r]),
      \* the values of the handler's headers (per name: at the first commit / at the end of the handler)
      hv |-> [lo |-> HdrValsLo(rq.steps), hi |-> HdrValsHi(rq.steps)],
      \* handler end and deadline coincide: either outcome (DESIGN section 5); only used for in-time requests
      boundary |-> IF IsAny(rq, cfg, full[r]) THEN [any |-> TRUE, set |-> {}]
                   ELSE [any |-> FALSE, set |-> Expected(rq, cfg, full[r]) \cup TimeoutResp("deadline")]]

\* ---------------------------------------------------------------- conns mode
NextNew == IF \E r \in Rids : phase[r] = "new"
             THEN CHOOSE r \in Rids : phase[r] = "new" /\ \A q \in Rids : phase[q] = "new" => r <= q
             ELSE 0

Enter ==
  LET r == NextNew IN
  /\ r # 0
  /\ Admit(r)
  /\ hist' = Append(hist, [op |-> "enter", r |-> r, cl |-> req[r].cl,
                           admitted |-> (phase'[r] = "inside"),
                           exp |-> IF phase'[r] = "inside" THEN [any |-> FALSE, set |-> {}]
                                   ELSE [any |-> FALSE, set |-> resp'[r][1]],
                           inside |-> inside'])

Release(r) ==
  /\ phase[r] = "inside"
  /\ pos[r] = Len(req[r].steps)          \* conns-mode requests have empty scripts: one HStep ends them
  /\ HStep(r)
  /\ hist' = Append(hist, [op |-> "release", r |-> r, cl |-> req[r].cl, admitted |-> TRUE,
                           exp |-> [any |-> FALSE, set |-> resp'[r][1]], inside |-> inside'])

ConnsNext == Len(hist) < MaxOps /\ (Enter \/ \E r \in Rids : Release(r))

\* requests are interchangeable except for their content-length: fix them in arrival order only
ConnsRecord == [mode |-> "conns", cfg |-> cfg, ops |-> hist]

\* ---------------------------------------------------------------- rpc mode
RpcRecord == {[mode |-> "rpc", beh |-> s.beh, pv |-> s.pv, chain |-> s.chain, late |-> s.late, cause |-> s.cause,
               wait |-> s.wait, exp |-> RpcExpected(s), at |-> RpcAnsweredAt(s)] : s \in RpcScenarios}

GNext == CASE Mode = "script" -> ScriptNext
           [] Mode = "conns"  -> ConnsNext
           [] Mode = "rpc"    -> FALSE /\ UNCHANGED gvars

GSpec == GInit /\ [][GNext]_gvars

Emit ==
  CASE Mode = "script" -> (ScriptDone => PrintT(ToJson(ScriptRecord)))
    [] Mode = "conns"  -> (Len(hist) = MaxOps => PrintT(ToJson(ConnsRecord)))
    [] Mode = "rpc"    -> RpcWellFormed /\ PrintT(ToJson(RpcRecord))

=============================================================================
