--------------------------- MODULE ExecutorTrace ---------------------------
(***************************************************************************)
(* Trace acceptor for property C16: decides whether a history recorded     *)
(* from the real PeriodicalExecutor / BulkExecutor / ChunkExecutor          *)
(* (harness/c16/executors_trace_test.go) is a behaviour of Executor.tla.   *)
(* Every logged event is one action of Executor.tla with its parameters    *)
(* taken from the event; all clauses of the property are GUARDS of those   *)
(* actions (a history is rejected iff no behaviour of the specification    *)
(* explains it), and the invariants of Executor.tla are evaluated in every *)
(* state on top.                                                           *)
(*                                                                         *)
(* events (file order = global sequence number of the recorder)            *)
(*   reset  kind max             a fresh executor; new history             *)
(*   ainv p t s / aret p         Add(t) of s bytes invoked / returned      *)
(*   add p t                     [per] AddTask, logged under pe.lock       *)
(*   take b                      [per] RemoveAll result, under pe.lock     *)
(*   xb b / xe b                 execute callback entered / about to return*)
(*   winv p / wret p             Wait invoked / returned                   *)
(*   finv p / fret p             Flush invoked / returned                  *)
(*   fstart n / fstop n / tick n / jump   flusher's ticker created /       *)
(*                               stopped, a tick accepted, clock jump      *)
(*   quiesce                     everything joined, final Wait returned,   *)
(*                               flushers retired                          *)
(*   hang op calls unexecuted    some public call did not return although  *)
(*                               ticks and clock jumps were kept going for *)
(*                               the whole grace period.  Never enabled:   *)
(*                               every task is executed and Wait returns   *)
(*                               (PeriodicalImpl.tla: no deadlock, a       *)
(*                               flusher is alive while work is pending),  *)
(*                               so no behaviour explains this event.      *)
(* kind "per": the container belongs to the recorder, so AddTask/RemoveAll *)
(* are logged under the executor's lock and nothing is internal.           *)
(* kinds "bulk"/"chunk" are driven through the public API only: where an   *)
(* Add takes effect and where a batch is taken are internal steps that TLC *)
(* places.                                                                 *)
(***************************************************************************)
EXTENDS Executor, Json

TraceLog == ndJsonDeserialize("trace.ndjson")

VARIABLES l,        \* index of the next event to consume
          fl        \* flusher tickers alive (bookkeeping only)

vars == <<l, fl, conf, added, sz, held, pend, running, begun, finished, returned, pc>>

Ev == TraceLog[l]
Is(name) == l <= Len(TraceLog) /\ TraceLog[l].e = name
Consume == l' = l + 1

Init ==
  /\ l = 1 /\ fl = {}
  /\ AInit([kind |-> "none", max |-> 0])
  /\ TLCSet(1, 1)

Reset ==
  /\ Is("reset")
  /\ \A p \in Procs : pc[p] = Idle
  /\ conf' = [kind |-> Ev.kind, max |-> Ev.max]
  /\ added' = <<>> /\ sz' = <<>> /\ held' = <<>> /\ pend' = {} /\ running' = {}
  /\ begun' = {} /\ finished' = {} /\ returned' = {}
  /\ UNCHANGED pc /\ fl' = {} /\ Consume

EvAddInv == Is("ainv") /\ AddInv(Ev.p, Ev.t, Ev.s) /\ UNCHANGED fl /\ Consume
EvAdd    == Is("add") /\ conf.kind = "per" /\ pc[Ev.p].s = "add" /\ pc[Ev.p].t = Ev.t
            /\ AddLin(Ev.p) /\ UNCHANGED fl /\ Consume
EvAddRet == Is("aret") /\ AddRet(Ev.p) /\ UNCHANGED fl /\ Consume
EvTake   == Is("take") /\ conf.kind = "per"
            /\ (IF Ev.b = <<>> THEN held = <<>> /\ UNCHANGED avars ELSE Take(Ev.b))
            /\ UNCHANGED fl /\ Consume
EvXb     == Is("xb") /\ ExecBegin(Ev.b) /\ UNCHANGED fl /\ Consume
EvXe     == Is("xe") /\ ExecEnd(Ev.b) /\ UNCHANGED fl /\ Consume
EvWInv   == Is("winv") /\ WaitInv(Ev.p) /\ UNCHANGED fl /\ Consume
EvWRet   == Is("wret") /\ WaitRet(Ev.p) /\ UNCHANGED fl /\ Consume
EvFInv   == Is("finv") /\ FlushInv(Ev.p) /\ UNCHANGED fl /\ Consume
EvFRet   == Is("fret") /\ FlushRet(Ev.p) /\ UNCHANGED fl /\ Consume
EvFStart == Is("fstart") /\ fl' = fl \cup {Ev.n} /\ UNCHANGED avars /\ Consume
EvFStop  == Is("fstop") /\ Ev.n \in fl /\ fl' = fl \ {Ev.n} /\ UNCHANGED avars /\ Consume
EvTick   == Is("tick") /\ UNCHANGED <<fl, avars>> /\ Consume
EvJump   == Is("jump") /\ UNCHANGED <<fl, avars>> /\ Consume
EvHang   == Is("hang") /\ FALSE /\ UNCHANGED <<fl, avars>> /\ Consume
EvQuiet  == Is("quiesce") /\ Quiet /\ UNCHANGED <<fl, avars>> /\ Consume

Logged ==
  \/ Reset \/ EvAddInv \/ EvAdd \/ EvAddRet \/ EvTake \/ EvXb \/ EvXe \/ EvWInv \/ EvWRet
  \/ EvFInv \/ EvFRet \/ EvFStart \/ EvFStop \/ EvTick \/ EvJump \/ EvQuiet \/ EvHang

\* public-API kinds: the effect of Add and the moment a batch is taken are not observable
Internal ==
  /\ conf.kind \in {"bulk", "chunk"}
  /\ \/ \E p \in Procs : AddLin(p)
     \/ Take(held)
  /\ UNCHANGED <<l, fl>>

Next == Logged \/ Internal

Spec == Init /\ [][Next]_vars

(* ------------------------------------------------------------------ acceptance *)

HighWater == IF l > TLCGet(1) THEN TLCSet(1, l) ELSE TRUE     \* used as CONSTRAINT (always TRUE)
Accepted  == /\ PrintT(<<"VREG", "hw", TLCGet(1)>>)
             /\ TLCGet(1) = Len(TraceLog) + 1

=============================================================================
