--------------------------- MODULE ExecutorTrace ---------------------------
(***************************************************************************)
(* Trace acceptor for property C16: decides whether a history recorded     *)
(* from the real PeriodicalExecutor / BulkExecutor / ChunkExecutor          *)
(* (harness/c16/executors_trace_test.go) is a behaviour of Executor.tla.   *)
(* Every logged event is one action of Executor.tla with its parameters    *)
(* taken from the event; all clauses of the property are GUARDS of those   *)
(* actions (a history is rejected iff no behaviour of the specification    *)
(* explains it), and the invariants of Executor.tla are evaluated in every *)
(* state on top.                                                           *)
(*                                                                         *)
(* events (file order = global sequence number of the recorder)            *)
(*   reset  kind max [iv]        a fresh executor; new history.  max (and  *)
(*                               iv, the flush interval in ms) are what    *)
(*                               THIS executor was configured with: the    *)
(*                               explicit option, or the package's default *)
(*                               constant where the option was left out    *)
(*                               (several executors with different options *)
(*                               may exist in the recording process, each  *)
(*                               is a history of its own)                  *)
(*   ainv p t s / aret p         Add(t) of s bytes invoked / returned      *)
(*   add p t                     [per] AddTask, logged under pe.lock       *)
(*   take b                      [per] RemoveAll result, under pe.lock     *)
(*   xb b / xe b                 execute callback entered / about to return*)
(*   winv p / wret p             Wait invoked / returned                   *)
(*   finv p / fret p             Flush invoked / returned                  *)
(*   fstart n [d] / fstop n / tick n / jump   flusher's ticker created     *)
(*                               (with period d ms: "the periodic tick" is *)
(*                               the configured interval's) / stopped, a   *)
(*                               tick accepted, clock jump                 *)
(*   rest                        no public call is in progress and every   *)
(*                               goroutine of the executor has ended (no   *)
(*                               background flusher is left), reached by   *)
(*                               ticks and clock jumps alone - no Add,     *)
(*                               Flush or Wait was called to get here.     *)
(*                               Nothing may be left behind: a task still  *)
(*                               held now would be executed by no trigger  *)
(*                               unless the caller acts again              *)
(*                               (PeriodicalImpl.tla: HeldCovered).        *)
(*   quiesce                     everything joined, final Wait returned,   *)
(*                               flushers retired                          *)
(*   hang op calls unexecuted    some public call did not return although  *)
(*                               ticks and clock jumps were kept going for *)
(*                               the whole grace period.  Never enabled:   *)
(*                               every task is executed and Wait returns   *)
(*                               (PeriodicalImpl.tla: no deadlock, a       *)
(*                               flusher is alive while work is pending),  *)
(*                               so no behaviour explains this event.      *)
(*   rh b err                    [inserter] the result handler was called  *)
(*                               for the executed statement holding rows b *)
(*   thr                         [inserter] one caller inserted exactly    *)
(*                               `max` rows into a fresh inserter, nothing *)
(*                               else was called and the first tick was    *)
(*                               not due yet: an execution has begun       *)
(*   threshold-no-flush          same situation, but nothing was executed  *)
(*                               before the first tick became due (seen in *)
(*                               three attempts).  Never enabled: reaching *)
(*                               the size threshold is a trigger.          *)
(*   xbm bs n drops / xem ...    [metrics] a report reached the writer:    *)
(*                               set of non-drop tasks (decoded from the   *)
(*                               aggregated duration), their number as     *)
(*                               reported, number of drops                 *)
(* kind "per": the container belongs to the recorder, so AddTask/RemoveAll *)
(* are logged under the executor's lock and nothing is internal.           *)
(* kinds "bulk"/"chunk" (executors), "inserter" (sqlx.BulkInserter: a row  *)
(* is a task, an executed INSERT statement is a batch) and "metrics"       *)
(* (stat.Metrics: a Task or a drop is a task, a report handed to the       *)
(* writer is a batch) are driven through the public API only: where an Add *)
(* takes effect is an internal step that TLC places, and the unobservable  *)
(* Take is folded into the begin of the execution (Executor!PubBegin).     *)
(***************************************************************************)
EXTENDS Executor, Json

TraceLog == ndJsonDeserialize("trace.ndjson")

VARIABLES l,        \* index of the next event to consume
          fl,       \* flusher tickers alive (bookkeeping only)
          handled   \* [inserter] executed statements whose result handler has been called

vars == <<l, fl, handled, conf, added, sz, held, pend, running, begun, finished, returned, pc>>

Ev == TraceLog[l]
Is(name) == l <= Len(TraceLog) /\ TraceLog[l].e = name
Consume == l' = l + 1

Init ==
  /\ l = 1 /\ fl = {} /\ handled = {}
  /\ AInit([kind |-> "none", max |-> 0, iv |-> 0])
  /\ TLCSet(1, 1)

Reset ==
  /\ Is("reset")
  /\ \A p \in Procs : pc[p] = Idle
  /\ conf' = [kind |-> Ev.kind, max |-> Ev.max, iv |-> IF "iv" \in DOMAIN Ev THEN Ev.iv ELSE 0]
  /\ added' = <<>> /\ sz' = <<>> /\ held' = <<>> /\ pend' = {} /\ running' = {}
  /\ begun' = {} /\ finished' = {} /\ returned' = {}
  /\ UNCHANGED pc /\ fl' = {} /\ handled' = {} /\ Consume

Public == conf.kind \in {"bulk", "chunk", "inserter", "metrics"}
SetOf(q) == {q[i] : i \in 1..Len(q)}
\* [metrics] what a report says about its batch
Sig(b, e) == /\ {t \in Range(b) : sz[t] = 1} = SetOf(e.bs)
             /\ Cardinality({t \in Range(b) : sz[t] = 0}) = e.drops
             /\ e.n = Len(e.bs)
\* runs of consecutively added tasks none of which has been passed to execute
Runs == {SubSeq(added, i, j) : i \in 1..Len(added), j \in 1..Len(added)} \ {<<>>}

UFH == UNCHANGED <<fl, handled>>

EvAddInv == Is("ainv") /\ AddInv(Ev.p, Ev.t, Ev.s) /\ UFH /\ Consume
EvAdd    == Is("add") /\ conf.kind = "per" /\ pc[Ev.p].s = "add" /\ pc[Ev.p].t = Ev.t
            /\ AddLin(Ev.p) /\ UFH /\ Consume
EvAddRet == Is("aret") /\ AddRet(Ev.p) /\ UFH /\ Consume
EvTake   == Is("take") /\ conf.kind = "per"
            /\ (IF Ev.b = <<>> THEN held = <<>> /\ UNCHANGED avars ELSE Take(Ev.b))
            /\ UFH /\ Consume
EvXb     == Is("xb") /\ (IF Public THEN PubBegin(Ev.b) ELSE ExecBegin(Ev.b)) /\ UFH /\ Consume
EvXe     == Is("xe") /\ (conf.kind = "inserter" => Ev.b \in handled) /\ ExecEnd(Ev.b) /\ UFH /\ Consume
EvRh     == Is("rh") /\ conf.kind = "inserter" /\ Ev.b \in running /\ Ev.b \notin handled
            /\ handled' = handled \cup {Ev.b} /\ UNCHANGED <<fl, avars>> /\ Consume
EvXbm    == Is("xbm") /\ conf.kind = "metrics" /\ (\E b \in Runs : Sig(b, Ev) /\ PubBegin(b)) /\ UFH /\ Consume
EvXem    == Is("xem") /\ conf.kind = "metrics" /\ (\E b \in running : Sig(b, Ev) /\ ExecEnd(b)) /\ UFH /\ Consume
EvWInv   == Is("winv") /\ WaitInv(Ev.p) /\ UFH /\ Consume
EvWRet   == Is("wret") /\ WaitRet(Ev.p) /\ UFH /\ Consume
EvFInv   == Is("finv") /\ FlushInv(Ev.p) /\ UFH /\ Consume
EvFRet   == Is("fret") /\ FlushRet(Ev.p) /\ UFH /\ Consume
EvFStart == Is("fstart") /\ (("d" \in DOMAIN Ev /\ conf.iv > 0) => Ev.d = conf.iv)
            /\ fl' = fl \cup {Ev.n} /\ UNCHANGED <<handled, avars>> /\ Consume
EvFStop  == Is("fstop") /\ Ev.n \in fl /\ fl' = fl \ {Ev.n} /\ UNCHANGED <<handled, avars>> /\ Consume
EvTick   == Is("tick") /\ UNCHANGED <<fl, handled, avars>> /\ Consume
EvJump   == Is("jump") /\ UNCHANGED <<fl, handled, avars>> /\ Consume
EvHang   == Is("hang") /\ FALSE /\ UNCHANGED <<fl, handled, avars>> /\ Consume
EvThr    == Is("thr") /\ conf.kind = "inserter" /\ begun # {} /\ UNCHANGED <<fl, handled, avars>> /\ Consume
EvNoFlush == Is("threshold-no-flush") /\ FALSE /\ UNCHANGED <<fl, handled, avars>> /\ Consume
EvQuiet  == Is("quiesce") /\ Quiet /\ UNCHANGED <<fl, handled, avars>> /\ Consume
EvRest   == Is("rest") /\ Quiet /\ UNCHANGED <<fl, handled, avars>> /\ Consume

Logged ==
  \/ Reset \/ EvAddInv \/ EvAdd \/ EvAddRet \/ EvTake \/ EvXb \/ EvXe \/ EvWInv \/ EvWRet
  \/ EvFInv \/ EvFRet \/ EvFStart \/ EvFStop \/ EvTick \/ EvJump \/ EvQuiet \/ EvHang
  \/ EvRh \/ EvXbm \/ EvXem \/ EvThr \/ EvNoFlush \/ EvRest

\* public-API kinds: the effect of Add is not observable
Internal ==
  /\ Public
  /\ \E p \in Procs : AddLinFree(p)
  /\ UNCHANGED <<l, fl, handled>>

Next == Logged \/ Internal

Spec == Init /\ [][Next]_vars

(* ------------------------------------------------------------------ acceptance *)

HighWater == IF l > TLCGet(1) THEN TLCSet(1, l) ELSE TRUE     \* used as CONSTRAINT (always TRUE)
Accepted  == /\ PrintT(<<"VREG", "hw", TLCGet(1)>>)
             /\ TLCGet(1) = Len(TraceLog) + 1

=============================================================================
