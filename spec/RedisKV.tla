------------------------------ MODULE RedisKV ------------------------------
(***************************************************************************)
(* Sequential model of a Redis keyspace as seen through the wrapper        *)
(* lib/store/redis (property C12).  One command = one atomic step; the     *)
(* reply is the Redis reply *after the wrapper's documented conversion*:   *)
(*   - absent key => "" / 0 / false / empty where the wrapper swallows     *)
(*     redis.Nil (Get, GetSet, MGet/HMGet elements), the error redis.Nil   *)
(*     otherwise (HGet, LPop, RPop, LIndex, ZScore, ZRank, ZRevRank);      *)
(*   - 0/1 replies as booleans where the wrapper returns bool;             *)
(*   - sorted-set replies as pairs with integer scores;                    *)
(*   - WRONGTYPE and "not an integer" replies as error classes.            *)
(* The same module is the specification of the sharded kv.Store: "behaves  *)
(* like one Redis server holding all keys" is the identity refinement.     *)
(*                                                                         *)
(* Values: strings (integers are their decimal strings), hashes over the   *)
(* field names Mem, lists of strings, sets over Mem, sorted sets over Mem  *)
(* with integer scores.  Expiry in whole model seconds.                    *)
(* A string is a text of the finite domain TextDom or - as soon as a       *)
(* bitmap command has produced bytes that are no such text - a sequence of *)
(* bits (8 per byte, most significant first: Redis' bit numbering); the    *)
(* bitmap commands see the bits of either form.  HyperLogLogs are modelled *)
(* by the exact set of the added elements (small sets: the estimate is     *)
(* exact), the server's script cache by one flag per fixed script, the     *)
(* SCAN family by complete iterations (cursor 0 until cursor 0 again).     *)
(*                                                                         *)
(* A command is a record c with c.op and its arguments; Step(c) is the     *)
(* pure step function  state -> [ks, exp, r];  r = [err, v].               *)
(***************************************************************************)
EXTENDS Integers, Sequences, FiniteSets, TLC

CONSTANTS Keys,      \* key names
          Mem,       \* sequence of member / field names in lexicographic order
          R,         \* integers handled by INCR-like commands are in -R..R
          MaxList,   \* longest list
          \* the command universe offered by Next (generation bounds)
          Fams,      \* subset of {"str", "key", "hash", "list", "set", "zset", "pipe", "bit", "hll", "script", "scan"}
          VS,        \* string values / hash values / list elements
          SecS,      \* TTL seconds
          NS,        \* signed increments
          IdxS,      \* list / rank indices
          ScoreS,    \* sorted-set scores and score bounds
          PageS,     \* pages of the ...AndLimit methods
          SizeS,     \* sizes of the ...AndLimit methods
          MaxAdv,    \* largest clock step (0: the clock stands still)
          KVOnly,    \* TRUE: only commands that kv.Store offers (single-key commands, multi-key Del)
          PipeLens,  \* lengths of the pipelines offered by family "pipe"
          BitOffS,   \* bit offsets of SetBit / GetBit
          ByteIdxS,  \* byte indices (start / end) of BitCount / BitPos
          HE,        \* elements added to HyperLogLogs
          CountS,    \* COUNT hints of the scan family
          ShapeS,    \* argument shapes offered for the variadic (...any) methods, a subset of Shapes
          ZeroElems, \* TRUE: LPush / RPush / SAdd / SRem / ZRem are also offered without any element
          PadS,      \* numbers of trailing ARGV elements that the script does not read, offered to Eval / EvalSha
          TextBytes, \* [text -> its bytes], the ASCII encoding of every text a string key can hold (VS and -R..R)
          Scripts    \* [script name -> [src |-> Lua source, sha |-> its SHA-1 in hex]] for the names in ScriptNames

VARIABLES ks,        \* [Keys -> typed value]
          exp,       \* [Keys -> Nat]  absolute second of expiry, 0 = none
          clock,     \* model seconds
          pipe,      \* pipeline in progress: [n |-> commands still to come, of |-> its length, err |-> first error]
          scr,       \* the server's script cache: [ScriptNames -> {"none", "loaded", "evalfail"}]
          out        \* last command with its reply

vars == <<ks, exp, clock, pipe, scr, out>>
core == <<ks, exp, clock, pipe, scr>>

Members == {Mem[i] : i \in 1..Len(Mem)}
RankOf(m) == CHOOSE i \in 1..Len(Mem) : Mem[i] = m
NoVal == "~"          \* hash field absent
NoScore == 9999       \* sorted-set member absent

NumStr == {ToString(i) : i \in (0 - R)..R}
IntOf == [s \in NumStr |-> CHOOSE i \in (0 - R)..R : ToString(i) = s]
IsNum(s) == s \in NumStr
IsNumV(val) == "s" \in DOMAIN val /\ IsNum(val.s)      \* a string value that is a decimal integer text

NoPipe == [n |-> 0, of |-> 0, err |-> ""]
None == [t |-> "none"]
Str(s) == [t |-> "str", s |-> s]
Hash(h) == [t |-> "hash", h |-> h]
List(l) == [t |-> "list", l |-> l]
SetV(m) == [t |-> "set", m |-> m]
ZSet(z) == [t |-> "zset", z |-> z]

\* m: the exact set of the elements added so far; c: ghost of the environment - a PFCOUNT has been served since
\* the key was created (see MiniredisPfaddReportsKnownElementsAfterCount)
Hll(m, c) == [t |-> "hll", m |-> m, c |-> c]

EmptyH == [f \in Members |-> NoVal]
EmptyZ == [m \in Members |-> NoScore]

(* ----------------------------------------------------------- strings as bits *)
\* bit 0 of a string is the most significant bit of its first byte
ByteBits(n) == [j \in 1..8 |-> (n \div (2 ^ (8 - j))) % 2]
BitsOfBytes(bs) == [i \in 1..(8 * Len(bs)) |-> ByteBits(bs[((i - 1) \div 8) + 1])[((i - 1) % 8) + 1]]
ByteAt(b, i) == b[8 * i - 7] * 128 + b[8 * i - 6] * 64 + b[8 * i - 5] * 32 + b[8 * i - 4] * 16
                + b[8 * i - 3] * 8 + b[8 * i - 2] * 4 + b[8 * i - 1] * 2 + b[8 * i]
BytesOfBits(b) == [i \in 1..(Len(b) \div 8) |-> ByteAt(b, i)]
TextDom == DOMAIN TextBytes
ASSUME VS \cup NumStr \subseteq TextDom
BitsOf == [s \in TextDom |-> BitsOfBytes(TextBytes[s])]
\* a string value that is no text of TextDom
Bin(b) == [t |-> "str", b |-> b]
IsBin(val) == val.t = "str" /\ "b" \in DOMAIN val
\* the string value with the given bits, in its normal form: a text wherever the bits spell one
StrOfBits(b) == IF \E s \in TextDom : BitsOf[s] = b THEN Str(CHOOSE s \in TextDom : BitsOf[s] = b) ELSE Bin(b)
BitsOfVal(val) == IF IsBin(val) THEN val.b ELSE BitsOf[val.s]
\* a string value as a reply: the text, or its bytes
SRep(val) == IF IsBin(val) THEN [bytes |-> BytesOfBits(val.b)] ELSE val.s
\* a byte string that may be the decimal form of an integer outside the model's range -R..R
MaybeIntBin(val) == IsBin(val) /\ \A i \in 1..(Len(val.b) \div 8) : ByteAt(val.b, i) \in {45} \cup (48..57)

ScriptNames == {"sget", "sset", "sincr"}

T(k) == ks[k].t
SBits(k) == IF T(k) = "str" THEN BitsOfVal(ks[k]) ELSE <<>>
PF(k) == IF T(k) = "hll" THEN ks[k].m ELSE {}
PFCounted(k) == T(k) = "hll" /\ ks[k].c
H(k) == IF T(k) = "hash" THEN ks[k].h ELSE EmptyH
L(k) == IF T(k) = "list" THEN ks[k].l ELSE <<>>
S(k) == IF T(k) = "set" THEN ks[k].m ELSE {}
Z(k) == IF T(k) = "zset" THEN ks[k].z ELSE EmptyZ
Is(k, t) == T(k) \in {"none", t}

Fields(h) == {f \in Members : h[f] # NoVal}
Scored(z) == {m \in Members : z[m] # NoScore}

IsEmpty(val) ==
  \/ val.t = "hash" /\ Fields(val.h) = {}
  \/ val.t = "list" /\ val.l = <<>>
  \/ val.t = "set" /\ val.m = {}
  \/ val.t = "zset" /\ Scored(val.z) = {}

(* ----------------------------------------------------------- replies *)
Ok(v)  == [err |-> "", v |-> v]
NilErr == [err |-> "nil", v |-> 0]
WT     == [err |-> "wrongtype", v |-> 0]
NotInt == [err |-> "notint", v |-> 0]
NoScript == [err |-> "noscript", v |-> 0]
Arity  == [err |-> "arity", v |-> 0]

Res(k2, e2, r) == [ks |-> k2, exp |-> e2, r |-> r]
Same(r) == Res(ks, exp, r)
\* change an aggregate in place: TTL kept; an aggregate that becomes empty disappears
Upd(k, val, r) == IF IsEmpty(val) THEN Res([ks EXCEPT ![k] = None], [exp EXCEPT ![k] = 0], r)
                  ELSE Res([ks EXCEPT ![k] = val], exp, r)
\* write a key afresh: TTL replaced (e = absolute second or 0)
New(k, val, e, r) == IF IsEmpty(val) THEN Res([ks EXCEPT ![k] = None], [exp EXCEPT ![k] = 0], r)
                     ELSE Res([ks EXCEPT ![k] = val], [exp EXCEPT ![k] = e], r)
Gone(k, r) == Res([ks EXCEPT ![k] = None], [exp EXCEPT ![k] = 0], r)

(* ----------------------------------------------------------- sequence helpers *)
Min2(a, b) == IF a < b THEN a ELSE b
Max2(a, b) == IF a > b THEN a ELSE b
Rev(s) == [i \in 1..Len(s) |-> s[Len(s) + 1 - i]]
Range(s) == {s[i] : i \in 1..Len(s)}
\* j-th smallest element of a set of integers
Nth(P, j) == CHOOSE i \in P : Cardinality({x \in P : x < i}) = j - 1
\* the elements of s at the positions in P, in order
Pick(s, P) == [j \in 1..Cardinality(P) |-> s[Nth(P, j)]]
\* Redis index range [start, stop] on a sequence of length n (negative = from the end)
Idx(n, start, stop) ==
  LET a == IF start < 0 THEN Max2(0, n + start) ELSE start
      b == IF stop < 0 THEN n + stop ELSE Min2(stop, n - 1)
  IN {i \in 1..n : a + 1 <= i /\ i <= b + 1}
Slice(s, start, stop) == Pick(s, Idx(Len(s), start, stop))
\* members of a set in lexicographic order
Sorted(ms) == LET P == {RankOf(m) : m \in ms} IN [j \in 1..Cardinality(P) |-> Mem[Nth(P, j)]]

(* ----------------------------------------------------------- sorted-set helpers *)
ZPos(z, m) == 1 + Cardinality({x \in Scored(z) : z[x] < z[m] \/ (z[x] = z[m] /\ RankOf(x) < RankOf(m))})
ZAsc(z) == [i \in 1..Cardinality(Scored(z)) |-> CHOOSE m \in Scored(z) : ZPos(z, m) = i]
ZPairs(z, ms) == [i \in 1..Len(ms) |-> [m |-> ms[i], s |-> z[ms[i]]]]
InScore(z, lo, hi) == {i \in 1..Cardinality(Scored(z)) : lo <= z[ZAsc(z)[i]] /\ z[ZAsc(z)[i]] <= hi}
Without(z, ms) == [m \in Members |-> IF m \in ms THEN NoScore ELSE z[m]]
\* page*size offset, size elements (size >= 1)
Page(s, page, size) == Pick(s, {i \in 1..Len(s) : page * size < i /\ i <= page * size + size})

(* ----------------------------------------------------------- argument shapes *)
\* LPush RPush SAdd SRem ZRem PFAdd Eval EvalSha (wrapper and kv.Store alike) take their trailing arguments as
\* `...any` and hand them to the go-redis command of the same name.  go-redis (appendArgs) sends a call with
\* exactly ONE trailing argument that is a []string, a []interface{}, a map[string]string or a
\* map[string]interface{} as the call with the elements (of a map: key, value) spread out; every other call
\* sends its arguments one by one.  How the caller hands over the elements is therefore no part of a command's
\* meaning: the field c.sh of a command says how the driver has to call the method, no step function reads it.
\*   "flat"  every element an argument of its own        (0 = no trailing argument, 1 = one scalar, 2 = several)
\*   "strs"  ONE argument, a []string of the elements    (any number, also the empty slice)
\*   "anys"  ONE argument, a []any of the elements       (any number, also the empty slice)
\*   "smap" / "amap"  ONE argument, a map[string]string / map[string]any with the single entry
\*           first element -> second element             (exactly 2 elements)
Shapes == {"flat", "strs", "anys", "smap", "amap"}
ASSUME ShapeS \subseteq Shapes
ShapeFits(sh, n) == sh \in {"smap", "amap"} => n = 2
\* the commands of C, each in every offered shape that fits its number of variadic elements
WithShape(C, n(_)) == UNION {{c @@ [sh |-> s] : s \in {x \in ShapeS : ShapeFits(x, n(c))}} : c \in C}

\* A command whose variadic part is empty reaches the server without a mandatory argument; Redis answers
\* "wrong number of arguments" before it looks at the key.  (Offered if ZeroElems.)
NoElems == IF ZeroElems THEN {<<>>} ELSE {}
NeedsAnElement == {"lpush", "rpush", "sadd", "srem", "zrem"}
NoElements(c) ==
  CASE c.op \in {"lpush", "rpush"} -> c.vs = <<>>
    [] c.op \in {"sadd", "srem", "zrem"} -> c.ms = <<>>
    [] OTHER -> FALSE

(* ----------------------------------------------------------- the step function *)
StrStep(c) ==
  LET k == c.k IN
  CASE c.op = "get" -> IF T(k) = "none" THEN Same(Ok("")) ELSE IF T(k) = "str" THEN Same(Ok(SRep(ks[k]))) ELSE Same(WT)
    [] c.op = "set" -> New(k, Str(c.v), 0, Ok(0))
    [] c.op = "setex" -> New(k, Str(c.v), clock + c.sec, Ok(0))
    [] c.op = "setnx" -> IF T(k) = "none" THEN New(k, Str(c.v), 0, Ok(TRUE)) ELSE Same(Ok(FALSE))
    [] c.op = "setnxex" -> IF T(k) = "none" THEN New(k, Str(c.v), clock + c.sec, Ok(TRUE)) ELSE Same(Ok(FALSE))
    [] c.op = "getset" -> IF T(k) = "none" THEN New(k, Str(c.v), 0, Ok(""))
                          ELSE IF T(k) = "str" THEN New(k, Str(c.v), 0, Ok(SRep(ks[k]))) ELSE Same(WT)
    [] c.op = "incrby" ->   \* Incr, IncrBy, Decr, DecrBy: c.n is the signed increment
         IF ~Is(k, "str") THEN Same(WT)
         ELSE IF T(k) = "str" /\ ~IsNumV(ks[k]) THEN Same(NotInt)
         ELSE LET cur == IF T(k) = "none" THEN 0 ELSE IntOf[ks[k].s]
              IN Res([ks EXCEPT ![k] = Str(ToString(cur + c.n))], exp, Ok(cur + c.n))

KeyStep(c) ==
  CASE c.op = "mget" -> Same(Ok([i \in 1..Len(c.ks) |-> IF T(c.ks[i]) = "str" THEN SRep(ks[c.ks[i]]) ELSE ""]))
    [] c.op = "del" -> Res([k \in Keys |-> IF k \in Range(c.ks) THEN None ELSE ks[k]],
                           [k \in Keys |-> IF k \in Range(c.ks) THEN 0 ELSE exp[k]],
                           Ok(Cardinality({k \in Range(c.ks) : T(k) # "none"})))
    [] c.op = "exists" -> Same(Ok(T(c.k) # "none"))
    [] c.op = "expire" -> IF T(c.k) = "none" THEN Same(Ok(0)) ELSE Res(ks, [exp EXCEPT ![c.k] = clock + c.sec], Ok(0))
    [] c.op = "expireat" ->   \* at second clock + c.d
         IF T(c.k) = "none" THEN Same(Ok(0))
         ELSE IF c.d <= 0 THEN Gone(c.k, Ok(0)) ELSE Res(ks, [exp EXCEPT ![c.k] = clock + c.d], Ok(0))
    [] c.op = "persist" -> IF exp[c.k] # 0 THEN Res(ks, [exp EXCEPT ![c.k] = 0], Ok(TRUE)) ELSE Same(Ok(FALSE))
    [] c.op = "ttl" -> Same(Ok(IF T(c.k) = "none" THEN 0 - 2 ELSE IF exp[c.k] = 0 THEN 0 - 1 ELSE exp[c.k] - clock))
    [] c.op = "keys" -> Same(Ok({k \in Keys : T(k) # "none"}))

HashStep(c) ==
  LET k == c.k
      h == H(k) IN
  IF ~Is(k, "hash") THEN Same(WT) ELSE
  CASE c.op = "hset" -> Upd(k, Hash([h EXCEPT ![c.f] = c.v]), Ok(0))
    [] c.op = "hsetnx" -> IF h[c.f] = NoVal THEN Upd(k, Hash([h EXCEPT ![c.f] = c.v]), Ok(TRUE)) ELSE Same(Ok(FALSE))
    [] c.op = "hget" -> IF h[c.f] = NoVal THEN Same(NilErr) ELSE Same(Ok(h[c.f]))
    [] c.op = "hmget" -> Same(Ok([i \in 1..Len(c.fs) |-> IF h[c.fs[i]] = NoVal THEN "" ELSE h[c.fs[i]]]))
    [] c.op = "hmset" ->   \* c.fv = sequence of [f, v] with distinct fields
         Upd(k, Hash([f \in Members |-> IF \E i \in 1..Len(c.fv) : c.fv[i].f = f
                                        THEN (CHOOSE p \in Range(c.fv) : p.f = f).v ELSE h[f]]), Ok(0))
    [] c.op = "hgetall" -> Same(Ok([i \in 1..Cardinality(Fields(h)) |-> [f |-> Sorted(Fields(h))[i], v |-> h[Sorted(Fields(h))[i]]]]))
    [] c.op = "hkeys" -> Same(Ok(Sorted(Fields(h))))
    [] c.op = "hvals" -> Same(Ok([i \in 1..Cardinality(Fields(h)) |-> h[Sorted(Fields(h))[i]]]))
    [] c.op = "hlen" -> Same(Ok(Cardinality(Fields(h))))
    [] c.op = "hdel" -> Upd(k, Hash([f \in Members |-> IF f \in Range(c.fs) THEN NoVal ELSE h[f]]),
                            Ok(Range(c.fs) \cap Fields(h) # {}))
    [] c.op = "hexists" -> Same(Ok(h[c.f] # NoVal))
    [] c.op = "hincrby" ->
         IF h[c.f] # NoVal /\ ~IsNum(h[c.f]) THEN Same(NotInt)
         ELSE LET cur == IF h[c.f] = NoVal THEN 0 ELSE IntOf[h[c.f]]
              IN Upd(k, Hash([h EXCEPT ![c.f] = ToString(cur + c.n)]), Ok(cur + c.n))

ListStep(c) ==
  LET k == c.k
      l == L(k)
      n == Len(L(k)) IN
  IF ~Is(k, "list") THEN Same(WT) ELSE
  CASE c.op = "lpush" -> Upd(k, List(Rev(c.vs) \o l), Ok(n + Len(c.vs)))
    [] c.op = "rpush" -> Upd(k, List(l \o c.vs), Ok(n + Len(c.vs)))
    [] c.op = "lpop" -> IF n = 0 THEN Same(NilErr) ELSE Upd(k, List(Tail(l)), Ok(l[1]))
    [] c.op = "rpop" -> IF n = 0 THEN Same(NilErr) ELSE Upd(k, List(SubSeq(l, 1, n - 1)), Ok(l[n]))
    [] c.op = "llen" -> Same(Ok(n))
    [] c.op = "lindex" -> LET i == IF c.i < 0 THEN n + c.i ELSE c.i
                          IN IF i < 0 \/ i >= n THEN Same(NilErr) ELSE Same(Ok(l[i + 1]))
    [] c.op = "lrange" -> Same(Ok(Slice(l, c.start, c.stop)))
    [] c.op = "lrem" ->
         LET P == {i \in 1..n : l[i] = c.v}
             Rm == IF c.cnt = 0 THEN P
                   ELSE IF c.cnt > 0 THEN {i \in P : Cardinality({x \in P : x < i}) < c.cnt}
                   ELSE {i \in P : Cardinality({x \in P : x > i}) < 0 - c.cnt}
         IN Upd(k, List(Pick(l, (1..n) \ Rm)), Ok(Cardinality(Rm)))
    [] c.op = "ltrim" -> Upd(k, List(Slice(l, c.start, c.stop)), Ok(0))

\* union / intersection / difference of the sets named by a sequence of keys
SetOf(kk, how) ==
  CASE how = "union" -> UNION {S(kk[i]) : i \in 1..Len(kk)}
    [] how = "inter" -> {m \in Members : \A i \in 1..Len(kk) : m \in S(kk[i])}
    [] how = "diff"  -> {m \in S(kk[1]) : \A i \in 2..Len(kk) : m \notin S(kk[i])}

SetStep(c) ==
  IF c.op \in {"sunion", "sinter", "sdiff"}
    THEN IF \E i \in 1..Len(c.ks) : ~Is(c.ks[i], "set") THEN Same(WT)
         ELSE Same(Ok(Sorted(SetOf(c.ks, IF c.op = "sunion" THEN "union" ELSE IF c.op = "sinter" THEN "inter" ELSE "diff"))))
  ELSE IF c.op \in {"sunionstore", "sinterstore", "sdiffstore"}
    THEN IF \E i \in 1..Len(c.ks) : ~Is(c.ks[i], "set") THEN Same(WT)
         ELSE LET r == SetOf(c.ks, IF c.op = "sunionstore" THEN "union" ELSE IF c.op = "sinterstore" THEN "inter" ELSE "diff")
              IN New(c.dst, SetV(r), 0, Ok(Cardinality(r)))
  ELSE
  LET k == c.k
      s == S(k) IN
  IF ~Is(k, "set") THEN Same(WT) ELSE
  CASE c.op = "sadd" -> Upd(k, SetV(s \cup Range(c.ms)), Ok(Cardinality(Range(c.ms) \ s)))
    [] c.op = "srem" -> Upd(k, SetV(s \ Range(c.ms)), Ok(Cardinality(Range(c.ms) \cap s)))
    [] c.op = "scard" -> Same(Ok(Cardinality(s)))
    [] c.op = "sismember" -> Same(Ok(c.m \in s))
    [] c.op = "smembers" -> Same(Ok(Sorted(s)))

ZStep(c) ==
  IF c.op = "zunionstore"
    THEN IF \E i \in 1..Len(c.ks) : ~Is(c.ks[i], "zset") THEN Same(WT)
         ELSE LET U == UNION {Scored(Z(c.ks[i])) : i \in 1..Len(c.ks)}
                  sum == [m \in Members |->
                            IF m \notin U THEN NoScore
                            ELSE (IF m \in Scored(Z(c.ks[1])) THEN Z(c.ks[1])[m] ELSE 0)
                               + (IF Len(c.ks) >= 2 /\ m \in Scored(Z(c.ks[2])) THEN Z(c.ks[2])[m] ELSE 0)]
              IN New(c.dst, ZSet(sum), 0, Ok(Cardinality(U)))
  ELSE IF c.op \in {"zrangebyscorelimit", "zrevrangebyscorelimit"} /\ c.size <= 0
    THEN Same(Ok(<<>>))        \* documented: a non-positive size yields an empty result without asking Redis
  ELSE
  LET k == c.k
      z == Z(k)
      asc == ZAsc(Z(k))
      n == Cardinality(Scored(Z(k))) IN
  IF ~Is(k, "zset") THEN Same(WT) ELSE
  CASE c.op = "zadd" -> Upd(k, ZSet([z EXCEPT ![c.m] = c.s]), Ok(z[c.m] = NoScore))
    [] c.op = "zadds" ->   \* c.ps = sequence of [m, s] with distinct members
         Upd(k, ZSet([m \in Members |-> IF \E i \in 1..Len(c.ps) : c.ps[i].m = m
                                        THEN (CHOOSE p \in Range(c.ps) : p.m = m).s ELSE z[m]]),
             Ok(Cardinality({p \in Range(c.ps) : z[p.m] = NoScore})))
    [] c.op = "zscore" -> IF z[c.m] = NoScore THEN Same(NilErr) ELSE Same(Ok(z[c.m]))
    [] c.op = "zincrby" -> LET cur == IF z[c.m] = NoScore THEN 0 ELSE z[c.m]
                           IN Upd(k, ZSet([z EXCEPT ![c.m] = cur + c.n]), Ok(cur + c.n))
    [] c.op = "zcard" -> Same(Ok(n))
    [] c.op = "zcount" -> Same(Ok(Cardinality(InScore(z, c.lo, c.hi))))
    [] c.op = "zrank" -> IF z[c.m] = NoScore THEN Same(NilErr) ELSE Same(Ok(ZPos(z, c.m) - 1))
    [] c.op = "zrevrank" -> IF z[c.m] = NoScore THEN Same(NilErr) ELSE Same(Ok(n - ZPos(z, c.m)))
    [] c.op = "zrem" -> Upd(k, ZSet(Without(z, Range(c.ms))), Ok(Cardinality(Range(c.ms) \cap Scored(z))))
    [] c.op = "zrange" -> Same(Ok(Slice(asc, c.start, c.stop)))
    [] c.op = "zrevrange" -> Same(Ok(Slice(Rev(asc), c.start, c.stop)))
    [] c.op = "zrangews" -> Same(Ok(ZPairs(z, Slice(asc, c.start, c.stop))))
    [] c.op = "zrevrangews" -> Same(Ok(ZPairs(z, Slice(Rev(asc), c.start, c.stop))))
    [] c.op = "zrangebyscore" -> Same(Ok(ZPairs(z, Pick(asc, InScore(z, c.lo, c.hi)))))
    [] c.op = "zrangebyscorelimit" ->
         IF c.size <= 0 THEN Same(Ok(<<>>))
         ELSE Same(Ok(ZPairs(z, Page(Pick(asc, InScore(z, c.lo, c.hi)), c.page, c.size))))
    [] c.op = "zrevrangebyscore" -> Same(Ok(ZPairs(z, Rev(Pick(asc, InScore(z, c.lo, c.hi))))))
    [] c.op = "zrevrangebyscorelimit" ->
         IF c.size <= 0 THEN Same(Ok(<<>>))
         ELSE Same(Ok(ZPairs(z, Page(Rev(Pick(asc, InScore(z, c.lo, c.hi))), c.page, c.size))))
    [] c.op = "zremrangebyscore" ->
         LET ms == {asc[i] : i \in InScore(z, c.lo, c.hi)} IN Upd(k, ZSet(Without(z, ms)), Ok(Cardinality(ms)))
    [] c.op = "zremrangebyrank" ->
         LET ms == {asc[i] : i \in Idx(n, c.start, c.stop)} IN Upd(k, ZSet(Without(z, ms)), Ok(Cardinality(ms)))

(* ----------------------------------------------------------- bitmaps *)
\* The bytes (1-based positions) that BITCOUNT / BITPOS key start end look at in a string of n bytes:
\* negative indices count from the end, both ends are clamped into the string (Redis: bitops.c).
ByteRange(n, start, end) ==
  LET a == Max2(IF start < 0 THEN n + start ELSE start, 0)
      b == Min2(Max2(IF end < 0 THEN n + end ELSE end, 0), n - 1)
  IN {i \in 1..n : a + 1 <= i /\ i <= b + 1}
MinOf(P) == CHOOSE p \in P : \A q \in P : p <= q

BitStep(c) ==
  IF c.op \in {"bitopand", "bitopor", "bitopxor", "bitopnot"}
    THEN IF \E i \in 1..Len(c.ks) : ~Is(c.ks[i], "str") THEN Same(WT)
         ELSE LET src == [i \in 1..Len(c.ks) |-> SBits(c.ks[i])]
                  n == IF Len(c.ks) = 1 THEN Len(src[1]) ELSE Max2(Len(src[1]), Len(src[2]))
                  ones(p) == Cardinality({i \in 1..Len(c.ks) : p <= Len(src[i]) /\ src[i][p] = 1})
                  res == [p \in 1..n |->
                            CASE c.op = "bitopand" -> IF ones(p) = Len(c.ks) THEN 1 ELSE 0
                              [] c.op = "bitopor" -> IF ones(p) > 0 THEN 1 ELSE 0
                              [] c.op = "bitopxor" -> ones(p) % 2
                              [] c.op = "bitopnot" -> 1 - ones(p)]
              \* the destination is written afresh (any former value of any type and its TTL are gone);
              \* an empty result removes it; the reply is the length of the result in bytes
              IN IF n = 0 THEN Gone(c.dst, Ok(0)) ELSE New(c.dst, StrOfBits(res), 0, Ok(n \div 8))
  ELSE
  LET k == c.k
      b == SBits(c.k)
      n == Len(SBits(c.k)) \div 8 IN
  IF ~Is(k, "str") THEN Same(WT) ELSE
  CASE c.op = "setbit" ->     \* the string grows (zero bytes) up to the byte of the offset; the TTL stays
         LET need == 8 * ((c.off \div 8) + 1)
             ext == IF Len(b) >= need THEN b ELSE b \o [i \in 1..(need - Len(b)) |-> 0]
         IN Res([ks EXCEPT ![k] = StrOfBits([ext EXCEPT ![c.off + 1] = c.bit])], exp, Ok(ext[c.off + 1]))
    [] c.op = "getbit" -> Same(Ok(IF c.off + 1 <= Len(b) THEN b[c.off + 1] ELSE 0))
    [] c.op = "bitcount" ->
         Same(Ok(Cardinality({p \in 1..Len(b) : ((p - 1) \div 8) + 1 \in ByteRange(n, c.start, c.stop) /\ b[p] = 1})))
    [] c.op = "bitpos" ->     \* (with start and end given: no such bit in the range -> -1)
         IF T(k) = "none" THEN Same(Ok(IF c.bit = 1 THEN 0 - 1 ELSE 0))
         ELSE LET P == {p \in 1..Len(b) : ((p - 1) \div 8) + 1 \in ByteRange(n, c.start, c.stop) /\ b[p] = c.bit}
              IN Same(Ok(IF P = {} THEN 0 - 1 ELSE MinOf(P) - 1))

(* ----------------------------------------------------------- HyperLogLog *)
\* Model: the exact set of added elements.  PFADD answers whether the HyperLogLog was altered: the key
\* was created or an element is new (for the small sets of the model every new element alters a register).
HllStep(c) ==
  CASE c.op = "pfadd" ->
         IF ~Is(c.k, "hll") THEN Same(WT)
         ELSE Res([ks EXCEPT ![c.k] = Hll(PF(c.k) \cup Range(c.es), PFCounted(c.k))], exp,
                  Ok(T(c.k) = "none" \/ Range(c.es) \ PF(c.k) # {}))
    [] c.op = "pfcount" -> IF ~Is(c.k, "hll") THEN Same(WT)
                           ELSE IF T(c.k) = "none" THEN Same(Ok(0))
                           ELSE Res([ks EXCEPT ![c.k] = Hll(PF(c.k), TRUE)], exp, Ok(Cardinality(PF(c.k))))
    [] c.op = "pfmerge" ->     \* the destination keeps its own elements (and its TTL) and gains the sources'
         IF ~Is(c.dst, "hll") \/ \E i \in 1..Len(c.ks) : ~Is(c.ks[i], "hll") THEN Same(WT)
         ELSE Res([ks EXCEPT ![c.dst] = Hll(PF(c.dst) \cup UNION {PF(c.ks[i]) : i \in 1..Len(c.ks)}, PFCounted(c.dst))], exp, Ok(0))

(* ----------------------------------------------------------- scripts *)
\* Three fixed scripts, each a wrapper around one command on KEYS[1]:
\*   sget   return redis.call('GET', KEYS[1])
\*   sset   return redis.call('SET', KEYS[1], ARGV[1])
\*   sincr  return redis.call('INCRBY', KEYS[1], ARGV[1])
\* Reply conversion (Lua -> RESP -> go-redis Cmd.Result()): integer -> int64, bulk -> string, status -> its
\* text ("OK"), Lua false (GET of an absent key) -> nil reply -> the error redis.Nil; an error raised by
\* redis.call fails the script with an error that names the cause (WRONGTYPE / not an integer).
\* EVALSHA of a script that the server does not have cached: NOSCRIPT.  EVAL and SCRIPT LOAD cache the script.
\* ARGV is c.v / c.n (sset / sincr) followed by c.extra elements "pad" that no script reads; c.sh is the shape
\* in which the caller hands ARGV over (see "argument shapes").
ScriptArgc(c) == (IF c.s = "sget" THEN 0 ELSE 1) + c.extra
ScriptInner(c) ==
  CASE c.s = "sget" -> [op |-> "get", k |-> c.k]
    [] c.s = "sset" -> [op |-> "set", k |-> c.k, v |-> c.v]
    [] c.s = "sincr" -> [op |-> "incrby", k |-> c.k, n |-> c.n]

ScriptStep(c) ==
  IF c.op = "scriptload" THEN Same(Ok(Scripts[c.s].sha))
  ELSE IF c.op = "evalsha" /\ scr[c.s] = "none" THEN Same(NoScript)
  ELSE LET res == StrStep(ScriptInner(c)) IN
       CASE c.s = "sget" -> IF T(c.k) = "none" THEN Same(NilErr) ELSE res
         [] c.s = "sset" -> [res EXCEPT !.r = Ok("OK")]
         [] c.s = "sincr" -> res

\* the script cache after command c with reply r
ScrAfter(c, r) ==
  CASE c.op = "scriptload" -> [scr EXCEPT ![c.s] = "loaded"]
    [] c.op = "eval" -> IF scr[c.s] = "loaded" THEN scr
                        ELSE [scr EXCEPT ![c.s] = IF r.err \in {"", "nil"} THEN "loaded" ELSE "evalfail"]
    [] OTHER -> scr

(* ----------------------------------------------------------- the scan family *)
\* One step = one complete iteration: the caller starts with cursor 0 and calls again with the cursor it
\* was given until it is given 0.  Redis guarantees that every element that is present during the whole
\* iteration is returned at least once (and none that never was there); how the elements are spread over
\* the calls is the server's choice, so the reply is the SET of all elements returned.  c.match = "" asks
\* for everything, any other value is a pattern without wildcards (matches exactly that name).
Matches(p, x) == p = "" \/ p = x
ScanStep(c) ==
  CASE c.op = "scanall" -> Same(Ok({k \in Keys : T(k) # "none" /\ Matches(c.match, k)}))
    [] c.op = "sscanall" -> IF ~Is(c.k, "set") THEN Same(WT) ELSE Same(Ok({m \in S(c.k) : Matches(c.match, m)}))
    [] c.op = "hscanall" -> IF ~Is(c.k, "hash") THEN Same(WT)
                            ELSE Same(Ok({[f |-> f, v |-> H(c.k)[f]] : f \in {g \in Fields(H(c.k)) : Matches(c.match, g)}}))

StrOps  == {"get", "set", "setex", "setnx", "setnxex", "getset", "incrby"}
BitOps  == {"setbit", "getbit", "bitcount", "bitpos", "bitopand", "bitopor", "bitopxor", "bitopnot"}
HllOps  == {"pfadd", "pfcount", "pfmerge"}
ScriptOps == {"eval", "evalsha", "scriptload"}
ScanOps == {"scanall", "sscanall", "hscanall"}
KeyOps  == {"mget", "del", "exists", "expire", "expireat", "persist", "ttl", "keys"}
HashOps == {"hset", "hsetnx", "hget", "hmget", "hmset", "hgetall", "hkeys", "hvals", "hlen", "hdel", "hexists", "hincrby"}
ListOps == {"lpush", "rpush", "lpop", "rpop", "llen", "lindex", "lrange", "lrem", "ltrim"}
SetOps  == {"sadd", "srem", "scard", "sismember", "smembers", "sunion", "sinter", "sdiff",
            "sunionstore", "sinterstore", "sdiffstore"}
ZOps    == {"zadd", "zadds", "zscore", "zincrby", "zcard", "zcount", "zrank", "zrevrank", "zrem", "zrange",
            "zrevrange", "zrangews", "zrevrangews", "zrangebyscore", "zrangebyscorelimit", "zrevrangebyscore",
            "zrevrangebyscorelimit", "zremrangebyscore", "zremrangebyrank", "zunionstore"}

Step(c) ==
  IF c.op \in NeedsAnElement /\ NoElements(c) THEN Same(Arity) ELSE
  CASE c.op \in StrOps -> StrStep(c)
    [] c.op \in KeyOps -> KeyStep(c)
    [] c.op \in HashOps -> HashStep(c)
    [] c.op \in ListOps -> ListStep(c)
    [] c.op \in SetOps -> SetStep(c)
    [] c.op \in ZOps -> ZStep(c)
    [] c.op \in BitOps -> BitStep(c)
    [] c.op \in HllOps -> HllStep(c)
    [] c.op \in ScriptOps -> ScriptStep(c)
    [] c.op \in ScanOps -> ScanStep(c)

\* Named deviation of the environment: Redis deletes the destination of SUNIONSTORE / SINTERSTORE /
\* SDIFFSTORE / ZUNIONSTORE when the result is empty; miniredis 2.23.1 keeps an empty key (and panics on
\* a later SADD to it).  The model follows Redis; such commands are not offered to the replay.
MiniredisKeepsEmptyDestination == TRUE

\* Named deviation of the environment: Redis' BITOP writes its destination afresh (setKey: the TTL of a former
\* value is gone); miniredis 2.23.1 keeps the destination's TTL.  The model follows Redis; BITOP into a key
\* that carries a TTL is not offered to the replay.
MiniredisBitopKeepsDestinationTTL == TRUE

\* Named deviation of the environment: in Redis a HyperLogLog is a string value (TYPE string; GET, SETBIT,
\* BITCOUNT, ... act on its bytes; the PF commands answer WRONGTYPE for a string that is no HyperLogLog); in
\* miniredis 2.23.1 it is a type of its own and every string command on it answers WRONGTYPE.  The model keeps
\* the HyperLogLog apart (type "hll": PF commands on any other type and non-string commands on it answer
\* WRONGTYPE in both worlds); commands that read a HyperLogLog key as a string are not offered.
MiniredisHllIsATypeOfItsOwn == TRUE
ReadsAsString(c) ==     \* the keys whose value command c reads as a string
  CASE c.op \in {"get", "getset", "setnx", "setnxex", "incrby", "setbit", "getbit", "bitcount", "bitpos"} -> {c.k}
    [] c.op \in {"mget", "bitopand", "bitopor", "bitopxor", "bitopnot"} -> Range(c.ks)
    [] c.op \in {"eval", "evalsha"} -> IF c.s = "sset" THEN {} ELSE {c.k}
    [] OTHER -> {}

\* Named deviation of the environment: Redis' PFADD answers 1 iff a register of the HyperLogLog changed (or the
\* key was created); miniredis 2.23.1 answers 1 iff an element is not in the sketch's buffer of recent additions,
\* which a PFCOUNT empties - so after a PFCOUNT a PFADD of known elements answers 1.  The model follows Redis;
\* PFADD of nothing but known elements to a key that has been counted is not offered.
MiniredisPfaddReportsKnownElementsAfterCount == TRUE

\* Named deviation of the environment: Redis accepts PFADD key without an element (it creates an empty
\* HyperLogLog); miniredis 2.23.1 answers "wrong number of arguments".  PFADD without an element is not offered
\* (ESeqs has no empty sequence).
MiniredisPfaddNeedsAnElement == TRUE

\* Named deviation of the environment: Redis caches the script of an EVAL as soon as it compiles, miniredis
\* 2.23.1 only when the run did not raise an error.  The model follows Redis (cache state "evalfail" = known to
\* Redis, unknown to miniredis); EVALSHA of a script in that state is not offered.
MiniredisCachesOnlySuccessfulEval == TRUE

\* Named deviation between Redis versions: BITCOUNT key start end with both indices negative and start > end
\* answers 0 from Redis 7.0 on and is clamped like every other range before; such ranges are not offered.
RedisVersionsDifferOnInvertedNegativeRange(c) == c.start < 0 /\ c.stop < 0 /\ c.start > c.stop

\* Named deviations of the environment in the scan family (miniredis 2.23.1): SCAN and HSCAN ignore COUNT,
\* return everything for cursor 0 together with the next cursor 0 and nothing for any other cursor; SSCAN
\* pages by COUNT with the offset as cursor.  A complete iteration (the model's step) is the same in all
\* cases; the passing of a non-zero cursor is therefore exercised through SSCAN only.
MiniredisScanAndHScanAnswerInOneCall == TRUE

\* commands whose result would leave the modelled value domain are not offered
IncrInRange(k, n) == /\ (T(k) = "str" /\ IsNumV(ks[k])) => (IntOf[ks[k].s] + n \in (0 - R)..R)
                     /\ (T(k) = "str") => ~MaybeIntBin(ks[k])

OfferedOp(c) ==
  CASE c.op = "incrby" -> IncrInRange(c.k, c.n)
    [] c.op \in {"eval", "evalsha"} ->
         /\ (c.s = "sincr" => IncrInRange(c.k, c.n))
         /\ (c.op = "evalsha" /\ MiniredisCachesOnlySuccessfulEval => scr[c.s] # "evalfail")
    [] c.op \in {"bitopand", "bitopor", "bitopxor", "bitopnot"} -> MiniredisBitopKeepsDestinationTTL => exp[c.dst] = 0
    [] c.op \in {"bitcount", "bitpos"} -> ~RedisVersionsDifferOnInvertedNegativeRange(c)
    [] c.op = "pfadd" -> MiniredisPfaddReportsKnownElementsAfterCount => ~(PFCounted(c.k) /\ Range(c.es) \subseteq PF(c.k))
    [] c.op = "hincrby" -> (T(c.k) = "hash" /\ IsNum(H(c.k)[c.f])) => (IntOf[H(c.k)[c.f]] + c.n \in (0 - R)..R)
    [] c.op = "zincrby" -> (T(c.k) = "zset" /\ Z(c.k)[c.m] # NoScore) => (Z(c.k)[c.m] + c.n \in (0 - R)..R)
    [] c.op \in {"lpush", "rpush"} -> Len(L(c.k)) + Len(c.vs) <= MaxList
    [] c.op = "zunionstore" ->
         /\ \A i \in 1..Len(c.ks) : T(c.ks[i]) # "set"      \* sets as inputs (score 1) are not modelled
         /\ Len(c.ks) <= 2
         /\ MiniredisKeepsEmptyDestination => Step(c).r.v # 0
    [] c.op \in {"sunionstore", "sinterstore", "sdiffstore"} ->
         MiniredisKeepsEmptyDestination => Step(c).r.v # 0
    [] OTHER -> TRUE

Offered(c) ==
  /\ (MiniredisHllIsATypeOfItsOwn => \A k \in ReadsAsString(c) : T(k) # "hll")
  /\ OfferedOp(c)

(* ----------------------------------------------------------- actions *)
Init ==
  /\ ks = [k \in Keys |-> None]
  /\ exp = [k \in Keys |-> 0]
  /\ clock = 0
  /\ pipe = NoPipe
  /\ scr = [s \in ScriptNames |-> "none"]
  /\ out = [c |-> [op |-> "init"], r |-> Ok(0)]

Do(c) ==
  /\ pipe.n = 0
  /\ c.op # "p"
  /\ Offered(c)
  /\ \E res \in {Step(c)} :
        /\ ks' = res.ks
        /\ exp' = res.exp
        /\ out' = [c |-> c, r |-> res.r]
        /\ scr' = ScrAfter(c, res.r)
  /\ UNCHANGED <<clock, pipe>>

\* The Ctx form of a method called with a context that is already cancelled ("canceled") or whose
\* deadline has already passed ("deadline"): like the go-redis command with the same context the call
\* fails with the context's error and the server is left untouched.
DoCtx(c, mode) ==
  /\ pipe.n = 0
  /\ c.op # "p"
  /\ out' = [c |-> c, ctx |-> mode,
             r |-> IF c.op \in {"zrangebyscorelimit", "zrevrangebyscorelimit"} /\ c.size <= 0
                   THEN Ok(<<>>)          \* answered without looking at the context or asking Redis
                   ELSE [err |-> mode, v |-> 0]]
  /\ UNCHANGED core

\* One command of a pipeline (Pipelined / PipelinedCtx with a function that queues the commands):
\* the server executes the queued commands in order; through its Cmder every command shows the
\* plain go-redis result of that command (no wrapper conversion: a Get of an absent key is
\* redis.Nil), whatever happened to its siblings; the pipeline as a whole returns the error of the
\* first failed command, nil if none failed (go-redis: "Exec returns the error of the first failed
\* command").  c.c is the queued command; a pipeline of length len is started only if `room` steps
\* are left.
PipeReply(q, r) == IF q.op = "get" /\ T(q.k) = "none" THEN NilErr ELSE r
PipeDo(c, len, room) ==
  /\ c.op = "p"
  /\ (pipe.n = 0 => (len \in PipeLens /\ len <= room))
  /\ Offered(c.c)
  /\ \E res \in {Step(c.c)} :
       \E r \in {PipeReply(c.c, res.r)} :
        LET of   == IF pipe.n = 0 THEN len ELSE pipe.of
            left == (IF pipe.n = 0 THEN len ELSE pipe.n) - 1
            ferr == IF pipe.n # 0 /\ pipe.err # "" THEN pipe.err ELSE r.err
        IN /\ ks' = res.ks
           /\ exp' = res.exp
           /\ out' = [c |-> c.c, r |-> r, p |-> [i |-> of - left, n |-> of, perr |-> ferr]]
           /\ pipe' = IF left = 0 THEN NoPipe ELSE [n |-> left, of |-> of, err |-> ferr]
  /\ UNCHANGED <<clock, scr>>

Advance(d) ==
  /\ pipe.n = 0
  /\ UNCHANGED <<pipe, scr>>
  /\ clock' = clock + d
  /\ ks' = [k \in Keys |-> IF exp[k] # 0 /\ exp[k] <= clock + d THEN None ELSE ks[k]]
  /\ exp' = [k \in Keys |-> IF exp[k] # 0 /\ exp[k] <= clock + d THEN 0 ELSE exp[k]]
  /\ out' = [c |-> [op |-> "advance", d |-> d], r |-> Ok(0)]

(* ----------------------------------------------------------- command universe *)
KSeqs == {<<k>> : k \in Keys} \cup {p \in Keys \X Keys : p[1] # p[2]}
MSeqs == {<<m>> : m \in Members} \cup {p \in Members \X Members : p[1] # p[2]}
VSeqs == {<<v>> : v \in VS} \cup {<<v1, v2>> : v1 \in VS, v2 \in VS}
ESeqs == {<<e>> : e \in HE} \cup {p \in HE \X HE : p[1] # p[2]}
M1 == Mem[1]
M2 == Mem[Len(Mem)]

Cmds(fam) ==
  CASE fam = "str" ->
         {[op |-> "get", k |-> k] : k \in Keys}
         \cup {[op |-> o, k |-> k, v |-> v] : o \in {"set", "setnx", "getset"}, k \in Keys, v \in VS}
         \cup {[op |-> o, k |-> k, v |-> v, sec |-> sec] : o \in {"setex", "setnxex"}, k \in Keys, v \in VS, sec \in SecS}
         \cup {[op |-> "incrby", form |-> "incr", k |-> k, n |-> 1] : k \in Keys}
         \cup {[op |-> "incrby", form |-> "decr", k |-> k, n |-> 0 - 1] : k \in Keys}
         \cup {[op |-> "incrby", form |-> "incrby", k |-> k, n |-> n] : k \in Keys, n \in NS}
         \cup {[op |-> "incrby", form |-> "decrby", k |-> k, n |-> 0 - n] : k \in Keys, n \in NS}
    [] fam = "key" ->
         {[op |-> o, ks |-> kk] : o \in {"mget", "del"}, kk \in KSeqs}
         \cup {[op |-> o, k |-> k] : o \in {"exists", "persist", "ttl"}, k \in Keys}
         \cup {[op |-> "expire", k |-> k, sec |-> sec] : k \in Keys, sec \in SecS}
         \cup {[op |-> "expireat", k |-> k, d |-> d] : k \in Keys, d \in {0 - 1, 0} \cup SecS}
         \cup {[op |-> "keys"]}
    [] fam = "hash" ->
         {[op |-> o, k |-> k, f |-> f, v |-> v] : o \in {"hset", "hsetnx"}, k \in Keys, f \in Members, v \in VS}
         \cup {[op |-> o, k |-> k, f |-> f] : o \in {"hget", "hexists"}, k \in Keys, f \in Members}
         \cup {[op |-> o, k |-> k, fs |-> fs] : o \in {"hmget", "hdel"}, k \in Keys, fs \in MSeqs}
         \cup {[op |-> "hmset", k |-> k, fv |-> <<[f |-> M1, v |-> v1], [f |-> M2, v |-> v2]>>] : k \in Keys, v1 \in VS, v2 \in VS}
         \cup {[op |-> o, k |-> k] : o \in {"hgetall", "hkeys", "hvals", "hlen"}, k \in Keys}
         \cup {[op |-> "hincrby", k |-> k, f |-> f, n |-> n] : k \in Keys, f \in Members, n \in NS}
    [] fam = "list" ->
         WithShape({[op |-> o, k |-> k, vs |-> vs] : o \in {"lpush", "rpush"}, k \in Keys, vs \in VSeqs \cup NoElems},
                   LAMBDA c : Len(c.vs))
         \cup {[op |-> o, k |-> k] : o \in {"lpop", "rpop", "llen"}, k \in Keys}
         \cup {[op |-> "lindex", k |-> k, i |-> i] : k \in Keys, i \in IdxS}
         \cup {[op |-> o, k |-> k, start |-> a, stop |-> b] : o \in {"lrange", "ltrim"}, k \in Keys, a \in IdxS, b \in IdxS}
         \cup {[op |-> "lrem", k |-> k, cnt |-> n, v |-> v] : k \in Keys, n \in {0 - 1, 0, 1, 2}, v \in VS}
    [] fam = "set" ->
         WithShape({[op |-> o, k |-> k, ms |-> ms] : o \in {"sadd", "srem"}, k \in Keys, ms \in MSeqs \cup NoElems},
                   LAMBDA c : Len(c.ms))
         \cup {[op |-> o, k |-> k] : o \in {"scard", "smembers"}, k \in Keys}
         \cup {[op |-> "sismember", k |-> k, m |-> m] : k \in Keys, m \in Members}
         \cup {[op |-> o, ks |-> kk] : o \in {"sunion", "sinter", "sdiff"}, kk \in KSeqs}
         \cup {[op |-> o, dst |-> d, ks |-> kk] : o \in {"sunionstore", "sinterstore", "sdiffstore"}, d \in Keys, kk \in KSeqs}
    [] fam = "zset" ->
         {[op |-> "zadd", form |-> fm, k |-> k, s |-> sc, m |-> m] : fm \in {"zadd", "zaddfloat"}, k \in Keys, sc \in ScoreS, m \in Members}
         \cup {[op |-> "zadds", k |-> k, ps |-> <<[m |-> M1, s |-> s1], [m |-> M2, s |-> s2]>>] : k \in Keys, s1 \in ScoreS, s2 \in ScoreS}
         \cup {[op |-> o, k |-> k, m |-> m] : o \in {"zscore", "zrank", "zrevrank"}, k \in Keys, m \in Members}
         \cup {[op |-> "zincrby", k |-> k, n |-> n, m |-> m] : k \in Keys, n \in NS, m \in Members}
         \cup {[op |-> "zcard", k |-> k] : k \in Keys}
         \cup {[op |-> o, k |-> k, lo |-> a, hi |-> b] :
                  o \in {"zcount", "zrangebyscore", "zrevrangebyscore", "zremrangebyscore"}, k \in Keys, a \in ScoreS, b \in ScoreS}
         \cup {[op |-> o, k |-> k, lo |-> a, hi |-> b, page |-> p, size |-> sz] :
                  o \in {"zrangebyscorelimit", "zrevrangebyscorelimit"}, k \in Keys, a \in ScoreS, b \in ScoreS,
                  p \in PageS, sz \in SizeS}
         \cup WithShape({[op |-> "zrem", k |-> k, ms |-> ms] : k \in Keys, ms \in MSeqs \cup NoElems}, LAMBDA c : Len(c.ms))
         \cup {[op |-> o, k |-> k, start |-> a, stop |-> b] :
                  o \in {"zrange", "zrevrange", "zrangews", "zrevrangews", "zremrangebyrank"}, k \in Keys, a \in IdxS, b \in IdxS}
         \cup {[op |-> "zunionstore", dst |-> d, ks |-> kk] : d \in Keys, kk \in KSeqs}
    [] fam = "bit" ->
         {[op |-> "setbit", k |-> k, off |-> o, bit |-> b] : k \in Keys, o \in BitOffS, b \in {0, 1}}
         \cup {[op |-> "getbit", k |-> k, off |-> o] : k \in Keys, o \in BitOffS}
         \cup {[op |-> "bitcount", k |-> k, start |-> a, stop |-> b] : k \in Keys, a \in ByteIdxS, b \in ByteIdxS}
         \cup {[op |-> "bitpos", k |-> k, bit |-> x, start |-> a, stop |-> b] : k \in Keys, x \in {0, 1}, a \in ByteIdxS, b \in ByteIdxS}
         \cup {[op |-> o, dst |-> d, ks |-> kk] : o \in {"bitopand", "bitopor", "bitopxor"}, d \in Keys, kk \in KSeqs}
         \cup {[op |-> "bitopnot", dst |-> d, ks |-> <<k>>] : d \in Keys, k \in Keys}
    [] fam = "hll" ->
         WithShape({[op |-> "pfadd", k |-> k, es |-> es] : k \in Keys, es \in ESeqs}, LAMBDA c : Len(c.es))
         \cup {[op |-> "pfcount", k |-> k] : k \in Keys}
         \cup {[op |-> "pfmerge", dst |-> d, ks |-> kk] : d \in Keys, kk \in KSeqs}
    [] fam = "script" ->
         WithShape(
           {[op |-> o, s |-> "sget", src |-> Scripts["sget"].src, sha |-> Scripts["sget"].sha, k |-> k, extra |-> x] :
                o \in {"eval", "evalsha"}, k \in Keys, x \in PadS}
           \cup {[op |-> o, s |-> "sset", src |-> Scripts["sset"].src, sha |-> Scripts["sset"].sha, k |-> k, v |-> v, extra |-> x] :
                o \in {"eval", "evalsha"}, k \in Keys, v \in VS, x \in PadS}
           \cup {[op |-> o, s |-> "sincr", src |-> Scripts["sincr"].src, sha |-> Scripts["sincr"].sha, k |-> k, n |-> n, extra |-> x] :
                o \in {"eval", "evalsha"}, k \in Keys, n \in NS, x \in PadS},
           ScriptArgc)
         \cup {[op |-> "scriptload", s |-> n, src |-> Scripts[n].src] : n \in ScriptNames}
    [] fam = "scan" ->
         {[op |-> "scanall", match |-> p, cnt |-> n] : p \in {""} \cup Keys, n \in CountS}
         \cup {[op |-> o, k |-> k, match |-> p, cnt |-> n] : o \in {"sscanall", "hscanall"}, k \in Keys, p \in {"", M1}, n \in CountS}
    [] fam = "pipe" ->    \* commands that may be queued in a pipeline
         {[op |-> "p", c |-> q] : q \in
            {[op |-> o, k |-> k] : o \in {"get", "lpop", "scard", "exists", "llen"}, k \in Keys}
            \cup {[op |-> "set", k |-> k, v |-> v] : k \in Keys, v \in VS}
            \cup {[op |-> "incrby", form |-> "incr", k |-> k, n |-> 1] : k \in Keys}
            \cup {[op |-> "del", ks |-> <<k>>] : k \in Keys}
            \cup {[op |-> "hget", k |-> k, f |-> M1] : k \in Keys}
            \cup {[op |-> "hset", k |-> k, f |-> M1, v |-> v] : k \in Keys, v \in VS}
            \cup {[op |-> "rpush", k |-> k, vs |-> <<v>>] : k \in Keys, v \in VS}
            \cup {[op |-> "sadd", k |-> k, ms |-> <<M1>>] : k \in Keys}
            \cup {[op |-> "zadd", form |-> "zadd", k |-> k, s |-> sc, m |-> M1] : k \in Keys, sc \in {CHOOSE x \in ScoreS : TRUE}}
            \cup {[op |-> "zscore", k |-> k, m |-> M1] : k \in Keys}}

NotInStore == {"mget", "keys", "sunion", "sinter", "sdiff", "sunionstore", "sinterstore", "sdiffstore", "zunionstore",
               "bitcount", "bitpos", "bitopand", "bitopor", "bitopxor", "bitopnot", "pfmerge", "evalsha", "scriptload",
               "scanall", "hscanall"}
AllCmds == {c \in UNION {Cmds(f) : f \in Fams} :
              KVOnly => (c.op \notin NotInStore \cup {"p"} /\ (c.op = "hdel" => Len(c.fs) = 1))}
PlainCmds == {c \in AllCmds : c.op # "p"}
PipeCmds == {c \in AllCmds : c.op = "p"}
CtxModes == {"canceled", "deadline"}

\* room = steps left in the behaviour (a pipeline is started only if it can be completed)
PlainNext(room) ==
  \/ \E c \in PlainCmds : Do(c)
  \/ \E c \in PipeCmds, len \in PipeLens : PipeDo(c, len, room)
  \/ \E d \in 1..MaxAdv : Advance(d)

CtxNext == \E c \in PlainCmds, mode \in CtxModes : DoCtx(c, mode)

Next == PlainNext(4) \/ CtxNext

Spec == Init /\ [][Next]_vars

(* ----------------------------------------------------------- sanity invariants *)
TypeOK ==
  /\ \A k \in Keys :
       /\ ks[k].t \in {"none", "str", "hash", "list", "set", "zset", "hll"}
       /\ (ks[k].t = "hll" => ks[k].m \subseteq HE)
       \* a string is a text of the domain or whole bytes that spell no such text (normal form)
       /\ (ks[k].t = "str" => IF IsBin(ks[k]) THEN /\ Len(ks[k].b) % 8 = 0 /\ Len(ks[k].b) > 0
                                                   /\ \A s \in TextDom : BitsOf[s] # ks[k].b
                              ELSE ks[k].s \in TextDom)
       /\ ~IsEmpty(ks[k])                                      \* empty aggregates do not exist
       /\ (ks[k].t = "none" => exp[k] = 0)                     \* only live keys have a TTL
       /\ (exp[k] # 0 => exp[k] > clock)                       \* expired keys are gone
       /\ (ks[k].t = "list" => Len(ks[k].l) <= MaxList)
  /\ pipe.n \in 0..4 /\ pipe.n <= pipe.of
  /\ scr \in [ScriptNames -> {"none", "loaded", "evalfail"}]

\* a reply never reports a type error for a key of the right type or an absent key
WrongTypeOnlyOnTypeClash ==
  (out.r.err = "wrongtype") => \E k \in Keys : ks[k].t # "none"

\* a bit that was just written reads back; writing never shortens the string
SetBitSticks ==
  (out.c.op = "setbit" /\ out.r.err = "") =>
     /\ out.c.off + 1 <= Len(SBits(out.c.k))
     /\ SBits(out.c.k)[out.c.off + 1] = out.c.bit

\* a script that the server was asked to load, or ran without error, can be called by its SHA-1
LoadedScriptIsCallable ==
  (out.c.op \in {"scriptload", "eval"} /\ out.r.err \in {"", "nil"}) => scr[out.c.s] = "loaded"

\* TTL semantics: a key with expiry e is present exactly until the clock reaches e
TTLSemantics ==
  [][\A k \in Keys : (exp[k] # 0 /\ out'.c.op = "advance") => ((ks'[k].t = "none") <=> (clock' >= exp[k]))]_vars

=============================================================================
