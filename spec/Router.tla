------------------------------- MODULE Router -------------------------------
(***************************************************************************)
(* Reference HTTP router (property C03; api/router/patrouter.go,           *)
(* lib/search/tree.go, api/pathvar/params.go, api/engine.go).              *)
(*                                                                         *)
(* The state is the route table: the set of (method, pattern) pairs whose  *)
(* registration was accepted.  A pattern is a sequence of segments, each a *)
(* literal or a ':name' parameter; the root pattern "/" is the empty       *)
(* sequence.  A request carries a method and a raw path, a sequence of raw *)
(* tokens t1..tn standing for the text "/t1/t2/../tn" where a token may be *)
(* the empty string (giving "//" or a trailing "/") or "." (giving "/./"). *)
(*                                                                         *)
(* Nothing here says how the table is searched: Matches/Outcome are the    *)
(* statement of C03 transcribed, and where the statement leaves a choice   *)
(* (several parameterised patterns match) the outcome is a set of          *)
(* candidates.  `out` is observation only (hidden by VIEW when model       *)
(* checking, recorded by RouterGen.tla).                                   *)
(***************************************************************************)
EXTENDS Integers, Sequences, FiniteSets, TLC

CONSTANTS Methods,     \* methods the router supports (used for registration)
          BadMethods,  \* methods the router must refuse to register
          ReqMethods,  \* methods of generated requests
          Lits,        \* literal segments offered to patterns
          ParNames,    \* sequence: ParNames[d] = parameter names offered at depth d
          MaxDepth,    \* longest pattern / clean request path
          ReqToks,     \* literal tokens offered to request paths
          DirtToks     \* literal tokens used in the unclean spellings

\* Method names are opaque, case-sensitive strings: "get" and "GET" are two names, and a name is
\* supported iff it is literally a member of Methods.  BadMethods may therefore hold other
\* spellings of supported verbs ("get", "Post") next to foreign names ("", "TRACE", "FOO").
ASSUME Methods \cap BadMethods = {}

VARIABLES table,       \* set of accepted routes [m, p]
          out          \* observation of the last step

vars == <<table, out>>

(* ------------------------------------------------------------ patterns *)

Lit(s) == [par |-> FALSE, s |-> s]
Par(n) == [par |-> TRUE, s |-> n]

SegsAt(d) == {Lit(l) : l \in Lits} \cup {Par(n) : n \in ParNames[d]}
AllSegs == UNION {SegsAt(d) : d \in 1..MaxDepth}

PatternsOf(d) == {p \in [1..d -> AllSegs] : \A i \in 1..d : p[i] \in SegsAt(i)}
Patterns == UNION {PatternsOf(d) : d \in 0..MaxDepth}

ParamPositions(p) == {i \in 1..Len(p) : p[i].par}
AllLiteral(p) == ParamPositions(p) = {}
\* patterns repeating a parameter name are outside the statement (which occurrence wins?)
DistinctNames(p) == \A i, j \in ParamPositions(p) : p[i].s = p[j].s => i = j

(* ------------------------------------------------------------ paths *)

\* path cleaning as far as the statement goes: '//', '/./' and a trailing '/' disappear
Clean(raw) == SelectSeq(raw, LAMBDA t : t # "" /\ t # ".")

\* "the root path '/' counting as a single empty segment"
PathSegs(clean) == IF clean = <<>> THEN <<"">> ELSE clean
PatSegs(p) == IF p = <<>> THEN <<Lit("")>> ELSE p

MatchesSegs(ps, segs) ==
  /\ Len(ps) = Len(segs)
  /\ \A i \in 1..Len(ps) : ps[i].par \/ ps[i].s = segs[i]

Matches(p, raw) == MatchesSegs(PatSegs(p), PathSegs(Clean(raw)))

\* ':name' bound to the corresponding path segment, as a set of [n, v] pairs
BindingSegs(p, segs) == {[n |-> p[i].s, v |-> segs[i]] : i \in ParamPositions(p)}
Binding(p, raw) == BindingSegs(p, PathSegs(Clean(raw)))

(* ------------------------------------------------------------ dispatch *)
\* (the ..Segs operators take the segments of the cleaned path; the others the raw path)

MatchingSegs(T, m, segs) == {r.p : r \in {x \in T : x.m = m /\ MatchesSegs(PatSegs(x.p), segs)}}
Matching(T, m, raw) == MatchingSegs(T, m, PathSegs(Clean(raw)))

\* patterns whose handler may run: an all-literal match excludes the others
CandidatesOf(M) == IF \E p \in M : AllLiteral(p) THEN {p \in M : AllLiteral(p)} ELSE M

AllowSegs(T, m, segs) == {r.m : r \in {x \in T : x.m # m /\ MatchesSegs(PatSegs(x.p), segs)}}
Allow(T, m, raw) == AllowSegs(T, m, PathSegs(Clean(raw)))

OutcomeSegs(T, m, segs) ==
  IF MatchingSegs(T, m, segs) # {}
    THEN [k |-> "handler",
          cands |-> {[p |-> p, bind |-> BindingSegs(p, segs)] : p \in CandidatesOf(MatchingSegs(T, m, segs))}]
  ELSE IF AllowSegs(T, m, segs) # {}
    THEN [k |-> "405", allow |-> AllowSegs(T, m, segs)]
  ELSE [k |-> "404"]

Outcome(T, m, raw) == OutcomeSegs(T, m, PathSegs(Clean(raw)))

\* registration: abs = the path text starts with '/'
Rejected(T, m, p, abs) == m \notin Methods \/ ~abs \/ [m |-> m, p |-> p] \in T

(* ------------------------------------------------------------ request universe *)

CleanPathsOf(toks, d) == UNION {[1..n -> toks] : n \in 0..d}
InsertAt(s, i, t) == SubSeq(s, 1, i - 1) \o <<t>> \o SubSeq(s, i, Len(s))
\* every clean path over DirtToks of depth < MaxDepth with one "" or "." token put anywhere
\* ("//a", "/a//b", "/a/", "/./a", "/a/./b", "/a/." ...), plus one spelling with three of them
Unclean ==
  LET base == CleanPathsOf(DirtToks, MaxDepth - 1)
      one == UNION {{InsertAt(b, i, t) : i \in 1..(Len(b) + 1), t \in {"", "."}} : b \in base}
      three == {<<"", ".">> \o b \o <<"">> : b \in base}
  IN one \cup three
RawPaths == CleanPathsOf(ReqToks, MaxDepth) \cup Unclean

(* ------------------------------------------------------------ actions *)

Init == table = {} /\ out = [op |-> "init"]

Register(m, p, abs) ==
  LET rej == Rejected(table, m, p, abs)
  IN /\ table' = IF rej THEN table ELSE table \cup {[m |-> m, p |-> p]}
     /\ out' = [op |-> "handle", m |-> m, p |-> p, abs |-> abs, err |-> rej]

Request(m, raw) ==
  /\ out' = [op |-> "request", m |-> m, raw |-> raw, res |-> Outcome(table, m, raw)]
  /\ UNCHANGED table

GoodPatterns == {p \in Patterns : DistinctNames(p)}

Next ==
  \/ \E m \in Methods \cup BadMethods, p \in GoodPatterns, abs \in BOOLEAN : Register(m, p, abs)
  \/ \E m \in ReqMethods, raw \in RawPaths : Request(m, raw)

Spec == Init /\ [][Next]_vars

(* ------------------------------------------------------------ properties of the reference *)
\* The invariants quantify over the whole request universe for the current table, so that the
\* model-checking run can hide `out` (VIEW core): one state per table, every request examined.

core == <<table>>

TypeOK == table \subseteq [m : Methods, p : GoodPatterns]

\* an unsupported name never owns a route and is never advertised, whatever was registered:
\* a request under it can only be answered 405 (routes of supported methods match) or 404
BadMethodsInert ==
  /\ \A r \in table : r.m \notin BadMethods
  /\ \A m \in ReqMethods, raw \in RawPaths :
       LET o == Outcome(table, m, raw)
       IN /\ o.k = "405" => o.allow \cap BadMethods = {}
          /\ m \in BadMethods => o.k # "handler"

\* a request is answered by exactly one of: a handler of a matching pattern, 405 + Allow, 404
Partition ==
  \A m \in ReqMethods, raw \in RawPaths :
    LET M == Matching(table, m, raw)
        A == Allow(table, m, raw)
        o == Outcome(table, m, raw)
    IN /\ o.k = "handler" <=> M # {}
       /\ o.k = "405" <=> (M = {} /\ A # {})
       /\ o.k = "404" <=> (M = {} /\ A = {})
       /\ o.k = "405" => m \notin o.allow /\ o.allow \subseteq Methods
                         /\ \A x \in Methods \ {m} : x \in o.allow <=> \E r \in table : r.m = x /\ Matches(r.p, raw)

\* soundness of a candidate, formulated independently of Matches: substituting the binding
\* into the pattern gives back the cleaned path, segment by segment
Subst(p, bind) ==
  [i \in 1..Len(p) |-> IF p[i].par THEN (CHOOSE b \in bind : b.n = p[i].s).v ELSE p[i].s]
CandidatesSound ==
  \A m \in ReqMethods, raw \in RawPaths :
    LET o == Outcome(table, m, raw)
        segs == PathSegs(Clean(raw))
    IN o.k = "handler" =>
         /\ o.cands # {}
         /\ \A c \in o.cands :
              /\ [m |-> m, p |-> c.p] \in table
              /\ IF c.p = <<>> THEN segs = <<"">> /\ c.bind = {}
                 ELSE Subst(c.p, c.bind) = segs

\* completeness: whenever the table holds a pattern of the method that can be instantiated to
\* the cleaned path, the answer is a handler
Complete ==
  \A m \in ReqMethods, raw \in RawPaths :
    (\E r \in table : r.m = m /\ Len(PatSegs(r.p)) = Len(PathSegs(Clean(raw)))
                      /\ \A i \in 1..Len(PatSegs(r.p)) :
                           PatSegs(r.p)[i].par \/ PatSegs(r.p)[i].s = PathSegs(Clean(raw))[i])
      => Outcome(table, m, raw).k = "handler"

\* an all-literal match is unique and excludes every parameterised candidate
LiteralWins ==
  \A m \in ReqMethods, raw \in RawPaths :
    LET o == Outcome(table, m, raw)
    IN (\E p \in Matching(table, m, raw) : AllLiteral(p)) =>
         /\ Cardinality(o.cands) = 1
         /\ \A c \in o.cands : AllLiteral(c.p)

\* a path that no registered pattern of any method matches is answered 404 (the generator uses
\* this to skip such requests cheaply)
QuietIs404 ==
  \A m \in ReqMethods, raw \in RawPaths :
    (\A r \in table : ~Matches(r.p, raw)) => Outcome(table, m, raw).k = "404"

\* cleaning is idempotent and the outcome depends on the cleaned path only
CleanStable ==
  \A m \in ReqMethods, raw \in RawPaths :
    /\ Clean(Clean(raw)) = Clean(raw)
    /\ Outcome(table, m, Clean(raw)) = Outcome(table, m, raw)

\* registration is rejected exactly in the three listed cases and never disturbs the table
RegisterRule ==
  [][out'.op = "handle" =>
       /\ out'.err <=> (out'.m \in BadMethods \/ ~out'.abs \/ [m |-> out'.m, p |-> out'.p] \in table)
       /\ out'.err => table' = table
       /\ ~out'.err => table' = table \cup {[m |-> out'.m, p |-> out'.p]}]_vars
RequestsReadOnly == [][out'.op = "request" => table' = table]_vars

=============================================================================
