----------------------------- MODULE AuthJwtGen -----------------------------
(* Behaviour generator for AuthJwt.tla (property C04): a configuration step  *)
(* followed by MaxReq requests (and possibly one 25 h advance).              *)
EXTENDS AuthJwt, Json

VARIABLE hist
gvars == <<vars, hist>>

GInit == Init /\ hist = <<out>>
GNext == Next /\ hist' = Append(hist, out')
GSpec == GInit /\ [][GNext]_gvars

Emit == n = MaxReq => PrintT(ToJson(hist))
=============================================================================
