------------------------------ MODULE AuthBoth ------------------------------
(***************************************************************************)
(* A route that carries BOTH gates of property C04: api.WithJwt /          *)
(* api.WithJwtTransition together with api.WithSignature{Strict} on the    *)
(* same route group (api/engine.go appendAuthHandler composes them).       *)
(*                                                                         *)
(* The module is the composition of AuthJwt.tla and AuthSig.tla: a request *)
(* carries a token class of AuthJwt (judged by J!Verdict under the route's *)
(* configuration) AND a signed-then-altered request class of AuthSig       *)
(* (judged by S!Pass); nothing is redefined here.                          *)
(*                                                                         *)
(* What the statement says about such a route:                             *)
(*   - first sentence (the route is JWT-protected): the handler runs only  *)
(*     with a valid token, "otherwise the answer is 401 and the handler    *)
(*     does not run" - no condition on anything else the request carries,  *)
(*     so a request without a valid token is answered 401 whatever its     *)
(*     X-Content-Security header looks like;                               *)
(*   - second sentence (the route is signature-protected, strict): the     *)
(*     handler runs only if the signature verifies, altering any signed    *)
(*     field "yields 403" - for a request the first sentence does not      *)
(*     already answer, i.e. one with a valid token;                        *)
(*   - both valid: both sentences say the handler runs.                    *)
(* Outcomes: "run" (handler ran once, 200), "401", "403" (handler not run).*)
(* Where AuthJwt leaves a choice (token without any time claim: "either")  *)
(* the outcome is a set.                                                   *)
(*                                                                         *)
(* Dimensions inherited from the two modules: cfg, server construction,    *)
(* unauthorized callback kind (AuthJwt); method, fingerprint, secret,      *)
(* timestamp offset, field altered after signing (AuthSig; one route group *)
(* holding both keys, body of known length, short secret - the other       *)
(* dimensions of AuthSig are driven on signature-only routes).             *)
(***************************************************************************)
EXTENDS Integers, Sequences, FiniteSets, TLC

CONSTANTS BTokens,    \* token classes offered: "Core" | "Few" | "All" (sets of AuthJwt)
          BCfgs,      \* JWT configurations of the route
          BServers,   \* server constructions
          BCallbacks, \* unauthorized-callback kinds
          BMethods    \* methods offered

VARIABLES base, picked, out
vars == <<base, picked, out>>

\* the two gates; their own behaviour variables are not used here (only the verdict operators are)
J == INSTANCE AuthJwt WITH Tokens <- {}, Cfgs <- BCfgs, Servers <- BServers, Callbacks <- BCallbacks, MaxReq <- 1,
                           cfg <- "", server <- "", cb <- "", cnt <- <<>>, stale <- FALSE, n <- 0, out <- out
S == INSTANCE AuthSig WITH MaxTamper <- 1, Servers <- BServers, Layouts <- {"one"}, SideMethods <- BMethods,
                           SideOffsets <- {}, SLens <- {}, base <- base, picked <- picked, out <- out

TokenSet == CASE BTokens = "Core" -> J!CoreTokens [] BTokens = "Few" -> J!FewTokens [] BTokens = "All" -> J!AllTokens

Layout == "one"
Group  == "g1"

SigReq(m, fp, sec, ts, tm, sv) ==
  [method |-> m, fp |-> fp, secret |-> sec, ts |-> ts, body |-> (m \in {"POST", "PUT"}), via |-> "sized",
   server |-> sv, tamper |-> tm, layout |-> Layout, group |-> Group, slen |-> "short"]

\* the signature side of a request: an honest client under either key at every tolerated offset; every single
\* field altered after signing; a header that does not decrypt (unknown fingerprint, no header, secret not base64 /
\* for the other key / corrupted in transit); a timestamp outside the tolerance
SigSide(m, sv) ==
  {SigReq(m, fp, "ok", ts, {}, sv) : fp \in {"known", "known2"}, ts \in {"now", "-tol", "+tol"}}
  \cup {SigReq(m, "known", "ok", "now", {f}, sv) : f \in S!Fields}
  \cup {SigReq(m, fp, "ok", "now", {}, sv) : fp \in {"unknown", "missing"}}
  \cup {SigReq(m, "known", sec, "now", {}, sv) : sec \in {"garbled", "crossed", "corrupt"}}
  \cup {SigReq(m, "known2", "ok", ts, {}, sv) : ts \in {"-tol-1", "+tol+1", "far", "garbage"}}

\* the outcomes the statement allows
Outcomes(t, c, r) ==
  LET jv == J!Verdict(t, c)
      sp == S!Pass(r)
  IN (IF jv \in {"deny", "either"} THEN {"401"} ELSE {})
     \cup (IF jv \in {"admit", "either"} THEN {IF sp THEN "run" ELSE "403"} ELSE {})

NoBase == [cfg |-> ""]

Init == base = NoBase /\ picked = FALSE /\ out = [op |-> "init"]

PickBase ==
  /\ base = NoBase
  /\ \E c \in BCfgs, sv \in BServers, k \in BCallbacks, t \in TokenSet :
        base' = [cfg |-> c, server |-> sv, cb |-> k, tok |-> t]
  /\ out' = [op |-> "base"]
  /\ UNCHANGED picked

PickRest ==
  /\ base # NoBase /\ ~picked /\ picked' = TRUE
  /\ \E m \in BMethods : \E r \in SigSide(m, base.server) :
        out' = [op |-> "both", cfg |-> base.cfg, cb |-> base.cb, tok |-> base.tok, req |-> r,
                expect |-> Outcomes(base.tok, base.cfg, r),
                jwt |-> J!Verdict(base.tok, base.cfg), sig |-> IF S!Pass(r) THEN "pass" ELSE "deny",
                visible |-> J!Visible(base.tok), hidden |-> J!Registered,
                foreign |-> S!Foreign(r), conf |-> S!Conf[r.layout], blocks |-> S!Blocks(r.slen)]
  /\ UNCHANGED base

Next == PickBase \/ PickRest

Spec == Init /\ [][Next]_vars

(* ---------------------------------------------------------------- properties *)

\* the JWT sentence holds whatever the signature side looks like
NoTokenIs401 == picked /\ out.jwt = "deny" => out.expect = {"401"}
\* the handler runs only if both gates admit
RunNeedsBoth == picked /\ "run" \in out.expect => out.jwt # "deny" /\ out.sig = "pass"
\* both valid: the handler runs
BothValidRuns == picked /\ out.jwt = "admit" /\ out.sig = "pass" => out.expect = {"run"}
\* a valid token with a request the signature gate refuses: 403
ValidTokenBadSignature403 == picked /\ out.jwt = "admit" /\ out.sig = "deny" => out.expect = {"403"}
\* 403 is never an answer to a request without a valid token, 401 never one to a request with one
StatusBelongsToItsGate ==
  picked => /\ ("403" \in out.expect => out.jwt # "deny" /\ out.sig = "deny")
            /\ ("401" \in out.expect => out.jwt # "admit")
\* the two gates are judged exactly as on routes that carry one of them
ComposedOfTheTwo ==
  picked => /\ out.jwt = J!Verdict(out.tok, out.cfg)
            /\ (out.sig = "pass") = S!Pass(out.req)
            /\ S!Pass(out.req) = (S!Decrypts(out.req) /\ S!Within(out.req.ts) /\ out.req.tamper = {})
=============================================================================
