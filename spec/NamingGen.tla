----------------------------- MODULE NamingGen -----------------------------
(***************************************************************************)
(* Case generator for Naming.tla (spec -> code replay, property C20).      *)
(*                                                                         *)
(* Every reachable state of Naming is one identifier; a BFS run therefore  *)
(* enumerates all identifiers up to MaxLen over IdChars, a simulation run  *)
(* yields long random identifiers.  For each identifier one JSON line is   *)
(* printed: the identifier (input), for every template either e = true     *)
(* (rejected) or the predicted file name s (output), and rt = the          *)
(* camel/snake round trip is promised.  The template list is printed once  *)
(* (header line) together with the parse the specification made of it      *)
(* (used by the driver only to name the class of a disagreement).          *)
(*                                                                         *)
(* Templates is bound by the configuration to TemplateList, the product of *)
(* the given prefixes, spellings of the two words, separators and suffixes *)
(* plus an explicit set of extra templates.                                *)
(***************************************************************************)
EXTENDS Naming, Json

CONSTANTS TplPrefixes, GoForms, TplThroughs, DesForms, TplSuffixes, Extra,
          EmitFrom     \* print only identifiers of at least this length

\* every casing of a word: each letter independently lower or upper case (2^Len(w) spellings);
\* exactly three of them (lower, upper, title) are styles, every other one must be rejected
Casings(w) == {[i \in 1..Len(w) |-> IF i \in U THEN Up(w[i]) ELSE Low(w[i])] : U \in SUBSET (1..Len(w))}

ProductTemplates == {p \o g \o t \o d \o s : p \in TplPrefixes, g \in GoForms, t \in TplThroughs, d \in DesForms, s \in TplSuffixes}
TemplateList == SetToSeq(ProductTemplates \cup Extra)

Describe(t) == LET p == Parse(t)
               IN IF p.valid THEN [t |-> t, valid |-> TRUE, gs |-> p.gs, ds |-> p.ds]
                  ELSE [t |-> t, valid |-> FALSE, why |-> p.why]

ASSUME PrintT(ToJson([templates |-> [k \in 1..Len(Templates) |-> Describe(Templates[k])]]))

\* what the identifier covers (read by checks/c20.py for its vacuity guard, not by the driver): a
\* digit-led word in first position / in a later position
Covers(s) == LET ws == Words(s)
             IN <<Len(ws) >= 1 /\ DigitLed(ws[1]), \E n \in 2..Len(ws) : DigitLed(ws[n])>>

Emit == Len(id) >= EmitFrom => PrintT(ToJson([id |-> out.id, n |-> out.names, rt |-> out.rt, dw |-> Covers(id)]))

=============================================================================
