----------------------------- MODULE NamingGen -----------------------------
(***************************************************************************)
(* Case generator for Naming.tla (spec -> code replay, property C20).      *)
(*                                                                         *)
(* Every reachable state of Naming is one identifier; a BFS run therefore  *)
(* enumerates all identifiers up to MaxLen over IdChars, a simulation run  *)
(* yields long random identifiers.  For each identifier one JSON line is   *)
(* printed: the identifier (input), for every template either e = true     *)
(* (rejected) or the predicted file name s (output), and rt = the          *)
(* camel/snake round trip is promised.  The template list is printed once  *)
(* (header line) together with the parse the specification made of it      *)
(* (used by the driver only to name the class of a disagreement) and with  *)
(* `via` - how the driver has to hand the templates over: "direct" to      *)
(* FileNamingFormat, "config" through config.NewConfig as the generators.  *)
(* sn / cm = the snake / camel form where the conventional conversion is   *)
(* defined (d = true).                                                     *)
(*                                                                         *)
(* Templates is bound by the configuration to TemplateList, the product of *)
(* the given prefixes, spellings of the two words, separators and suffixes *)
(* plus an explicit set of extra templates.                                *)
(***************************************************************************)
EXTENDS Naming, Json

CONSTANTS TplPrefixes, GoForms, TplThroughs, DesForms, TplSuffixes, Extra,
          EmitFrom     \* print only identifiers of at least this length

\* every casing of a word: each letter independently lower or upper case (2^Len(w) spellings);
\* exactly three of them (lower, upper, title) are styles, every other one must be rejected
Casings(w) == {[i \in 1..Len(w) |-> IF i \in U THEN Up(w[i]) ELSE Low(w[i])] : U \in SUBSET (1..Len(w))}

ProductTemplates == {p \o g \o t \o d \o s : p \in TplPrefixes, g \in GoForms, t \in TplThroughs, d \in DesForms, s \in TplSuffixes}
TemplateList == SetToSeq(ProductTemplates \cup Extra)

\* ws: where the template has white space that a trimming hand-over would lose (read by checks/c20.py for its
\* vacuity guard and by the driver to name the class of a disagreement)
Outer(t) == IF t = <<>> THEN "none"
            ELSE IF IsBlank(t) THEN "blank"
            ELSE IF t[1] \in WhiteSpace /\ t[Len(t)] \in WhiteSpace THEN "both"
            ELSE IF t[1] \in WhiteSpace THEN "lead"
            ELSE IF t[Len(t)] \in WhiteSpace THEN "trail"
            ELSE "no"

Describe(k) == LET t == Templates[k]
                   p == Parse(Effective(Templates[k]))
               IN IF p.valid THEN [t |-> t, valid |-> TRUE, gs |-> p.gs, ds |-> p.ds, ws |-> Outer(t)]
                  ELSE [t |-> t, valid |-> FALSE, why |-> p.why, ws |-> Outer(t)]

ASSUME Via \in {"direct", "config"}
ASSUME PrintT(ToJson([templates |-> [k \in 1..Len(Templates) |-> Describe(k)], via |-> Via]))

\* what the identifier covers (read by checks/c20.py for its vacuity guard, not by the driver): a
\* digit-led word in first position / in a later position
Covers(s) == LET ws == Words(s)
             IN <<Len(ws) >= 1 /\ DigitLed(ws[1]), \E n \in 2..Len(ws) : DigitLed(ws[n])>>

\* ... an upper-case letter after a letter whose lower-case form is longer / after a byte that is no UTF-8
Longer(s) == <<\E i \in 1..Len(s) : s[i] \in {"Ax", "Tx"} /\ \E j \in (i + 1)..Len(s) : IsUpperU(s[j]),
               \E i \in 1..Len(s) : s[i] \in InvalidBytes /\ \E j \in (i + 1)..Len(s) : IsUpperU(s[j])>>

Emit == Len(id) >= EmitFrom => PrintT(ToJson([id |-> out.id, n |-> out.names, rt |-> out.rt, sn |-> out.sn, cm |-> out.cm,
                                               dw |-> Covers(id), lg |-> Longer(id)]))

=============================================================================
