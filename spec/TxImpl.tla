------------------------------- MODULE TxImpl -------------------------------
(***************************************************************************)
(* Mechanism-shaped model of transactOnConn (lib/store/sqlx/tx.go): the    *)
(* named result `err`, the deferred function with its three branches       *)
(* (recover() # nil / err # nil / else), a panic in flight.  The constant   *)
(* RecoverBranch selects what the deferred function does when it recovers  *)
(* a panic of the body:                                                    *)
(*    "empty"    nothing (the branch is empty: the panic is swallowed)     *)
(*    "rollback" Rollback and set err (the repair)                         *)
(*    "reraise"  Rollback and panic again                                  *)
(* The atomicity predicates of Tx.tla are restated on the mechanism's      *)
(* variables.  A violation found here is a lead for the replay on the real *)
(* code (checks/c11.py), never a verdict by itself.                        *)
(***************************************************************************)
EXTENDS Integers, TLC

CONSTANTS RecoverBranch

VARIABLES pc,        \* "idle" | "fn" | "defer" | "done"
          txopen,    \* a driver transaction is open
          begun,
          bend,      \* how fn ended: "none" | "nil" | "err" | "panic"
          err,       \* the named result: "nil" | "begin" | "fn" | "commit" | "wrapped" | "recovered"
          inflight,  \* a panic is propagating to the caller
          commits, rollbacks

vars == <<pc, txopen, begun, bend, err, inflight, commits, rollbacks>>

Init == /\ pc = "idle" /\ txopen = FALSE /\ begun = FALSE /\ bend = "none" /\ err = "nil"
        /\ inflight = FALSE /\ commits = 0 /\ rollbacks = 0

\* tx, err = b(conn); if err != nil { return }
Begin(ok) ==
  /\ pc = "idle"
  /\ IF ok THEN pc' = "fn" /\ txopen' = TRUE /\ begun' = TRUE /\ UNCHANGED err
           ELSE pc' = "done" /\ err' = "begin" /\ UNCHANGED <<txopen, begun>>
  /\ UNCHANGED <<bend, inflight, commits, rollbacks>>

\* return fn(ctx, tx)   -- sets err, or panics
Fn(e) ==
  /\ pc = "fn"
  /\ pc' = "defer" /\ bend' = e
  /\ err' = IF e = "err" THEN "fn" ELSE "nil"
  /\ inflight' = (e = "panic")
  /\ UNCHANGED <<txopen, begun, commits, rollbacks>>

\* the deferred function; `ok` is the driver's answer to the Commit/Rollback it may issue
Deferred(ok) ==
  /\ pc = "defer"
  /\ pc' = "done"
  /\ IF inflight THEN          \* p := recover(); p != nil
       CASE RecoverBranch = "empty" ->
              /\ inflight' = FALSE
              /\ UNCHANGED <<err, txopen, commits, rollbacks>>
         [] RecoverBranch = "rollback" ->
              /\ inflight' = FALSE /\ rollbacks' = rollbacks + 1 /\ txopen' = FALSE
              /\ err' = "recovered" /\ UNCHANGED commits
         [] RecoverBranch = "reraise" ->
              /\ inflight' = TRUE /\ rollbacks' = rollbacks + 1 /\ txopen' = FALSE
              /\ UNCHANGED <<err, commits>>
     ELSE IF err # "nil" THEN  \* tx.Rollback(); wrap on failure
       /\ rollbacks' = rollbacks + 1 /\ txopen' = FALSE
       /\ err' = IF ok THEN err ELSE "wrapped"
       /\ UNCHANGED <<inflight, commits>>
     ELSE                      \* err = tx.Commit()
       /\ commits' = commits + 1 /\ txopen' = FALSE
       /\ err' = IF ok THEN "nil" ELSE "commit"
       /\ UNCHANGED <<inflight, rollbacks>>
  /\ UNCHANGED <<begun, bend>>

Next == (\E ok \in BOOLEAN : Begin(ok) \/ Deferred(ok)) \/ (\E e \in {"nil", "err", "panic"} : Fn(e))
Spec == Init /\ [][Next]_vars

\* what the caller sees
Result == IF inflight THEN "panic" ELSE err
Done == pc = "done"

NilMeansCommitted == Done /\ Result = "nil" => commits = 1 /\ rollbacks = 0 /\ bend = "nil"
ElseRolledBack    == Done /\ begun /\ bend # "nil" => rollbacks = 1 /\ commits = 0
FailureIsReported == Done /\ bend \in {"err", "panic"} => Result # "nil"
NoDangling        == Done => ~txopen
OneEnding         == commits + rollbacks <= 1
=============================================================================
