------------------------------- MODULE TxImpl -------------------------------
(***************************************************************************)
(* Mechanism-shaped model of transactOnConn (lib/store/sqlx/tx.go): the    *)
(* named result `err`, the deferred function with its three branches       *)
(* (recover() # nil / err # nil / else), a panic in flight.  The constant   *)
(* RecoverBranch selects what the deferred function does when it recovers  *)
(* a panic of the body:                                                    *)
(*    "empty"    nothing (the branch is empty: the panic is swallowed)     *)
(*    "rollback" Rollback and set err (the repair)                         *)
(*    "reraise"  Rollback and panic again                                  *)
(* The constant Chain selects how the branches hang together:             *)
(*    "chained"  if recovered {..} else if err != nil {..} else {..}       *)
(*    "split"    if recovered {..};  if err != nil {..} else {..}          *)
(* (with "split" the second statement runs after a recovered panic as      *)
(* well - unless the recover branch panics again - and sees the err the    *)
(* recover branch has just set).                                           *)
(* Two layers are counted, as in Tx.tla: ccalls / rcalls are the calls of  *)
(* tx.Commit() / tx.Rollback(), commits / rollbacks the ones that reach    *)
(* the driver: a finished *sql.Tx answers ErrTxDone by itself.             *)
(* The atomicity predicates of Tx.tla are restated on the mechanism's      *)
(* variables.  A violation found here is a lead for the replay on the real *)
(* code (checks/c11.py), never a verdict by itself.                        *)
(***************************************************************************)
EXTENDS Integers, TLC

CONSTANTS RecoverBranch, Chain

VARIABLES pc,        \* "idle" | "fn" | "defer" | "done"
          txopen,    \* a driver transaction is open
          begun,
          bend,      \* how fn ended: "none" | "nil" | "err" | "panic"
          err,       \* the named result: "nil" | "begin" | "fn" | "commit" | "wrapped" | "recovered"
          inflight,  \* a panic is propagating to the caller
          commits, rollbacks,   \* reached the driver
          ccalls, rcalls        \* calls of tx.Commit() / tx.Rollback()

vars == <<pc, txopen, begun, bend, err, inflight, commits, rollbacks, ccalls, rcalls>>

Init == /\ pc = "idle" /\ txopen = FALSE /\ begun = FALSE /\ bend = "none" /\ err = "nil"
        /\ inflight = FALSE /\ commits = 0 /\ rollbacks = 0 /\ ccalls = 0 /\ rcalls = 0

\* tx, err = b(conn); if err != nil { return }
Begin(ok) ==
  /\ pc = "idle"
  /\ IF ok THEN pc' = "fn" /\ txopen' = TRUE /\ begun' = TRUE /\ UNCHANGED err
           ELSE pc' = "done" /\ err' = "begin" /\ UNCHANGED <<txopen, begun>>
  /\ UNCHANGED <<bend, inflight, commits, rollbacks, ccalls, rcalls>>

\* return fn(ctx, tx)   -- sets err, or panics
Fn(e) ==
  /\ pc = "fn"
  /\ pc' = "defer" /\ bend' = e
  /\ err' = IF e = "err" THEN "fn" ELSE "nil"
  /\ inflight' = (e = "panic")
  /\ UNCHANGED <<txopen, begun, commits, rollbacks, ccalls, rcalls>>

B2N(b) == IF b THEN 1 ELSE 0

\* the deferred function; `ok` is the driver's answer to the Commit/Rollback of its err # nil / else
\* statement (the recover branch reports "recovered" whatever its Rollback answers)
Deferred(ok) ==
  /\ pc = "defer"
  /\ pc' = "done"
  /\ LET rec    == inflight                                   \* p := recover(); p != nil
         rdid   == rec /\ RecoverBranch # "empty"              \* the recover branch calls tx.Rollback()
         rfly   == rec /\ RecoverBranch = "reraise"            \* ... and panics again
         rerr   == IF rec /\ RecoverBranch = "rollback" THEN "recovered" ELSE err
         second == ~rec \/ (Chain = "split" /\ ~rfly)         \* the err # nil / else statement runs
         sroll  == second /\ rerr # "nil"                      \* tx.Rollback(); wrap on failure
         scomm  == second /\ rerr = "nil"                      \* err = tx.Commit()
     IN /\ inflight' = rfly
        /\ rcalls' = rcalls + B2N(rdid) + B2N(sroll)
        /\ ccalls' = ccalls + B2N(scomm)
        \* only the first ending call on the open handle reaches the driver; a finished handle
        \* refuses by itself (ErrTxDone)
        /\ rollbacks' = rollbacks + B2N(rdid \/ sroll)
        /\ commits' = commits + B2N(scomm /\ ~rdid)
        /\ txopen' = (txopen /\ ~(rdid \/ sroll \/ scomm))
        /\ err' = IF sroll THEN (IF ok /\ ~rdid THEN rerr ELSE "wrapped")
                  ELSE IF scomm THEN (IF ok /\ ~rdid THEN "nil" ELSE "commit")
                  ELSE rerr
  /\ UNCHANGED <<begun, bend>>

Next == (\E ok \in BOOLEAN : Begin(ok) \/ Deferred(ok)) \/ (\E e \in {"nil", "err", "panic"} : Fn(e))
Spec == Init /\ [][Next]_vars

\* what the caller sees
Result == IF inflight THEN "panic" ELSE err
Done == pc = "done"

NilMeansCommitted == Done /\ Result = "nil" => commits = 1 /\ rollbacks = 0 /\ bend = "nil"
ElseRolledBack    == Done /\ begun /\ bend # "nil" => rollbacks = 1 /\ commits = 0
FailureIsReported == Done /\ bend \in {"err", "panic"} => Result # "nil"
NoDangling        == Done => ~txopen
OneEnding         == commits + rollbacks <= 1
\* the session layer: tx.Commit() / tx.Rollback() is called exactly once on a begun transaction
OneEndingCall     == Done => ccalls + rcalls = (IF begun THEN 1 ELSE 0)
=============================================================================
