----------------------------- MODULE ShardedDel -----------------------------
(***************************************************************************)
(* Fault model of the sharded KV store's multi-key delete (property C12:   *)
(* "a multi-key delete removes every named key"; lib/store/kv/store.go     *)
(* DelCtx).  Every key lives on its home shard; a shard may be down.       *)
(*   Del(k1..kn)  every named key whose home shard answers is removed and  *)
(*                counted, whatever its position in the argument list and  *)
(*                whatever happened to the keys named before it; an error  *)
(*                is reported iff some named key's home shard is down      *)
(*                (the store collects the per-key errors and carries on);  *)
(*                keys on a shard that is down stay.                       *)
(* A behaviour of the generator: Set some keys; one shard (or none) goes    *)
(* down; one Del over 1..3 distinct keys in some order; the shard comes    *)
(* back; every key is read back through the store.                         *)
(***************************************************************************)
EXTENDS Integers, Sequences, FiniteSets, TLC, Json

CONSTANTS Keys,      \* sequence of key names; key i lives on shard Home[i]
          Home,      \* sequence of shard numbers, same length
          Shards     \* set of shard numbers

VARIABLES present,   \* set of keys that exist
          down,      \* set of shards that are down
          phase, hist

vars == <<present, down, phase, hist>>

KeySet == {Keys[i] : i \in 1..Len(Keys)}
HomeOf(k) == Home[CHOOSE i \in 1..Len(Keys) : Keys[i] = k]
Up(k) == HomeOf(k) \notin down
Range(s) == {s[i] : i \in 1..Len(s)}
DelSeqs == {<<k>> : k \in KeySet}
           \cup {p \in KeySet \X KeySet : p[1] # p[2]}
           \cup {p \in KeySet \X KeySet \X KeySet : Cardinality({p[1], p[2], p[3]}) = 3}

Init == present = {} /\ down = {} /\ phase = "set" /\ hist = <<>>

Set(k) ==
  /\ phase = "set" /\ k \notin present
  /\ \A x \in present : HomeOf(x) < HomeOf(k) \/ (HomeOf(x) = HomeOf(k) /\ x # k)   \* one order of the Sets is enough
  /\ present' = present \cup {k}
  /\ hist' = Append(hist, [op |-> "set", k |-> k, home |-> HomeOf(k)])
  /\ UNCHANGED <<down, phase>>

Down(s) ==
  /\ phase = "set"
  /\ down' = {s} /\ phase' = "del"
  /\ hist' = Append(hist, [op |-> "down", shard |-> s])
  /\ UNCHANGED present

NoFault ==
  /\ phase = "set" /\ phase' = "del"
  /\ UNCHANGED <<present, down, hist>>

Del(ks) ==
  /\ phase = "del"
  /\ LET gone == {k \in Range(ks) : Up(k) /\ k \in present}
     IN /\ present' = present \ gone
        /\ hist' = Append(hist, [op |-> "del", ks |-> ks, homes |-> [i \in 1..Len(ks) |-> HomeOf(ks[i])],
                                 count |-> Cardinality(gone), failed |-> \E k \in Range(ks) : ~Up(k)])
  /\ phase' = "up"
  /\ UNCHANGED down

Recover ==
  /\ phase = "up"
  /\ down' = {} /\ phase' = "read"
  /\ hist' = IF down = {} THEN hist ELSE Append(hist, [op |-> "up", shard |-> CHOOSE s \in down : TRUE])
  /\ UNCHANGED present

ReadBack ==
  /\ phase = "read" /\ phase' = "done"
  /\ hist' = Append(hist, [op |-> "read", exists |-> [i \in 1..Len(Keys) |-> [k |-> Keys[i], e |-> Keys[i] \in present]]])
  /\ UNCHANGED <<present, down>>

Next == (\E k \in KeySet : Set(k)) \/ (\E s \in Shards : Down(s)) \/ NoFault \/ (\E ks \in DelSeqs : Del(ks)) \/ Recover \/ ReadBack
Spec == Init /\ [][Next]_vars

\* the property: a Del leaves no named key behind whose shard answers
DelRemovesEveryReachableKey ==
  [][phase = "del" /\ phase' = "up" =>
       \A k \in Range(hist'[Len(hist')].ks) : Up(k) => k \notin present']_vars

Emit == (phase = "done") => PrintT(ToJson(hist))
=============================================================================
