------------------------------ MODULE P2CTrace ------------------------------
(***************************************************************************)
(* Trace validation for P2C.tla (code -> spec, property C14).              *)
(*                                                                         *)
(* c14trace.ndjson holds many traces recorded on the real picker under the *)
(* virtual clock, concatenated; each starts with a "reset" event:          *)
(*   {"ev":"reset","n":N,"id":i}                                           *)
(*   {"ev":"pick","c":c,"t":ms,"infl":[..],"succ":[..],"lag":[..]}         *)
(*   {"ev":"done","c":c,"code":"Unavailable","lat":us,"t":ms, ...same}     *)
(*   {"ev":"dbegin","c":c,"t":ms, ...}  a completion began (in-flight decremented, time t read) *)
(*   {"ev":"dend","c":c,"code":..,"lat":us,"t":ms (the time read at dbegin), ...} its update applied *)
(*   {"ev":"state","t":ms,"picks":[..],"dones":[..],"lmin":[..],"lmax":[..],"seen":[..], ...same} *)
(* infl/succ/lag are the projection of every ready connection read after   *)
(* the operation (c = 0: the pick returned something that is not a ready   *)
(* connection).  "state" is the quiescent state after a concurrent run     *)
(* (no per-step order is claimed for it): the invariants of P2C.tla are    *)
(* evaluated on it.                                                        *)
(*                                                                         *)
(* Every pick/done event must be a step of P2C.tla: the guard of the       *)
(* action holds for the logged arguments (new score and estimate taken     *)
(* from the log) and the logged projection equals the action's post-state. *)
(* An event that is no such step is recorded (index + violated clauses) and *)
(* the rest of its trace is skipped, so one TLC run reports the first      *)
(* disagreement of every trace.  Run with -workers 1: the behaviour is a   *)
(* single chain; registers 1 (high-water mark) and 2 (rejections) are read *)
(* by the POSTCONDITION.                                                   *)
(***************************************************************************)
EXTENDS P2C, Json

VARIABLES l,        \* index of the next event
          skip      \* the current trace was rejected: ignore events up to the next reset

tvars == <<vars, l, skip>>

TraceLog == ndJsonDeserialize("c14trace.ndjson")
NEv == Len(TraceLog)
MaxRej == 200

Ready(n) == 1..n

\* the logged projection equals the given post-state functions on the ready connections
ProjOK(e, i2, s2, g2) ==
  /\ Len(e.infl) = Cardinality(ready) /\ Len(e.succ) = Cardinality(ready) /\ Len(e.lag) = Cardinality(ready)
  /\ \A c \in ready : e.infl[c] = i2[c] /\ e.succ[c] = s2[c] /\ e.lag[c] = g2[c]

PickWhy(e) ==
  LET c == e.c IN
  IF PickFails(c, e.t) # {} THEN PickFails(c, e.t)
  ELSE IF ProjOK(e, PickPost(c, e.t).infl, succ, lag) THEN {} ELSE {"pick-effect"}

DoneWhy(e) ==
  LET c == e.c
      f == DoneFails(c, e.code, e.lat, e.t, e.succ[c], e.lag[c], e.ev = "dend") IN
  IF c \notin ready THEN f
  ELSE IF e.code \notin AllCodes THEN {"unknown-code"}
  ELSE IF f # {} THEN f
  ELSE LET p == DonePost(c, e.code, e.lat, e.t, e.succ[c], e.lag[c], e.ev = "dend")
       IN IF ProjOK(e, p.infl, p.succ, p.lag) THEN {} ELSE {"done-effect"}

BeginWhy(e) ==
  LET c == e.c IN
  IF BeginFails(c, e.t) # {} THEN BeginFails(c, e.t)
  ELSE IF ProjOK(e, BeginPost(c).infl, succ, lag) THEN {} ELSE {"done-effect"}

\* quiescent state after a concurrent run, judged by the invariants of P2C.tla on the logged state
StateWhy(e) ==
  (IF \A c \in ready : e.infl[c] = e.picks[c] - e.dones[c] /\ e.infl[c] >= 0 THEN {} ELSE {"inflight"})
  \cup (IF \A c \in ready : e.succ[c] \in 0..1000 THEN {} ELSE {"succ-range"})
  \cup (IF \A c \in ready : IF e.seen[c] = 0 THEN e.lag[c] = 0
                            ELSE e.lag[c] >= e.lmin[c] - 1 /\ e.lag[c] <= e.lmax[c] + 1 THEN {} ELSE {"lag-range"})

Reject(why) ==
  /\ IF Len(TLCGet(2)) < MaxRej THEN TLCSet(2, Append(TLCGet(2), [l |-> l, why |-> why])) ELSE TRUE
  /\ skip' = TRUE
  /\ UNCHANGED vars

TInit ==
  /\ InitWith({})
  /\ l = 1 /\ skip = TRUE
  /\ TLCSet(1, 0) /\ TLCSet(2, <<>>)

TReset(e) ==
  /\ ready' = Ready(e.n) /\ now' = 0
  /\ infl' = Zero /\ picks' = Zero /\ dones' = Zero
  /\ succ' = [c \in Conns |-> InitSuccess]
  /\ lag' = Zero /\ lmin' = Zero /\ lmax' = Zero
  /\ lastPick' = [c \in Conns |-> -1] /\ lastDone' = [c \in Conns |-> -1]
  /\ prevPick' = -1 /\ badrun' = Zero /\ goodrun' = Zero /\ failrun' = Zero /\ half' = Zero /\ ended' = Zero
  /\ out' = [op |-> "init"]
  /\ skip' = FALSE

TStep ==
  LET e == TraceLog[l] IN
  CASE e.ev = "reset" -> TReset(e)
    [] e.ev # "reset" /\ skip -> UNCHANGED <<vars, skip>>
    [] e.ev = "pick" /\ ~skip ->
         LET why == PickWhy(e) IN
         IF why = {} THEN Pick(e.c, e.t) /\ UNCHANGED skip ELSE Reject(why)
    [] e.ev = "done" /\ ~skip ->
         LET why == DoneWhy(e) IN
         IF why = {} THEN Done(e.c, e.code, e.lat, e.t, e.succ[e.c], e.lag[e.c]) /\ UNCHANGED skip ELSE Reject(why)
    [] e.ev = "dbegin" /\ ~skip ->
         LET why == BeginWhy(e) IN
         IF why = {} THEN DoneBegin(e.c, e.t) /\ UNCHANGED skip ELSE Reject(why)
    [] e.ev = "dend" /\ ~skip ->
         LET why == DoneWhy(e) IN
         IF why = {} THEN DoneEnd(e.c, e.code, e.lat, e.t, e.succ[e.c], e.lag[e.c]) /\ UNCHANGED skip ELSE Reject(why)
    [] e.ev = "state" /\ ~skip ->
         LET why == StateWhy(e) IN
         IF why = {} THEN UNCHANGED <<vars, skip>> ELSE Reject(why)

TNext ==
  /\ l <= NEv
  /\ TStep
  /\ l' = l + 1
  /\ TLCSet(1, l)

TSpec == TInit /\ [][TNext]_tvars

\* evaluated once, when the chain is exhausted
Post == PrintT(ToJson([hw |-> TLCGet(1), n |-> NEv, rejected |-> TLCGet(2)]))

=============================================================================
