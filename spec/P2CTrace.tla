------------------------------ MODULE P2CTrace ------------------------------
(***************************************************************************)
(* Trace validation for P2C.tla (code -> spec, property C14).              *)
(*                                                                         *)
(* c14trace.ndjson holds many traces recorded on the real picker under the *)
(* virtual clock, concatenated; each starts with a "reset" event:          *)
(*   {"ev":"reset","n":N,"id":i}            N connections 1..N in this history *)
(*   {"ev":"build","p":k,"ready":[ids],"held":[ids],"t":ms, ...}           *)
(*        the balancer of some client published picker k, built over the   *)
(*        ready set `ready` (driver's record of the states it delivered);  *)
(*        `held` = the connections found in the picker (0 = a SubConn that *)
(*        is none of the history)                                          *)
(*   {"ev":"pick","p":k,"c":c,"t":ms,"infl":[..],"succ":[..],"lag":[..]}   *)
(*   {"ev":"done","c":c,"code":"Unavailable","lat":us,"t":ms, ...same}     *)
(*   {"ev":"dbegin","c":c,"t":ms, ...}  a completion began (in-flight decremented, time t read) *)
(*   {"ev":"dend","c":c,"code":..,"lat":us,"t":ms (the time read at dbegin), ...} its update applied *)
(*   {"ev":"state","t":ms,"picks":[..],"dones":[..],"lmin":[..],"lmax":[..],"seen":[..], ...same} *)
(*   {"ev":"fault","op":"pick"|"done","kind":"never-returns"|"panics","p":k,"c":c,"pending":m,"t":ms,"note":.., ...same} *)
(*        the operation was invoked and did not return: it was still blocked when every goroutine of the *)
(*        process had been blocked for seconds (or for two minutes without progress), or it panicked;   *)
(*        pending = the recorder's count of calls of c picked and not completed (c = 0 for a pick)      *)
(* infl/succ/lag (length N) are the projection of the event's picker read  *)
(* after the operation; only the entries of the picker's ready connections *)
(* are compared (c = 0: the pick returned something that is no connection  *)
(* of the history).  "p" defaults to 0.                                    *)
(*                                                                         *)
(* Several pickers may be alive in one history (several clients served by  *)
(* the one registered picker builder; a client's picker rebuilt after a    *)
(* connection went down while the previous picker still serves picks and   *)
(* completions).  Each picker is an independent instance of P2C.tla whose  *)
(* ready connections are those of its own build: the variables of P2C hold *)
(* the state of the current picker `cur`, `bank` the states of the others; *)
(* an event of another picker is preceded by a switch step that swaps the  *)
(* states (it consumes no event).  A "build" is accepted when the picker   *)
(* holds exactly the ready connections of its build (clause "ready-set").  *)
(* "state" is the quiescent state after a concurrent run (no per-step      *)
(* order is claimed for it): the invariants of P2C.tla are evaluated on it. *)
(*                                                                         *)
(* Every pick/done event must be a step of P2C.tla: the guard of the       *)
(* action holds for the logged arguments (new score and estimate taken     *)
(* from the log) and the logged projection equals the action's post-state. *)
(* An event that is no such step is recorded (index + violated clauses) and *)
(* the rest of its trace is skipped, so one TLC run reports the first      *)
(* disagreement of every trace.  Run with -workers 1: the behaviour is a   *)
(* single chain; registers 1 (high-water mark) and 2 (rejections) are read *)
(* by the POSTCONDITION.                                                   *)
(***************************************************************************)
EXTENDS P2C, Json

VARIABLES l,        \* index of the next event
          skip,     \* the current trace was rejected: ignore events up to the next reset
          bank,     \* [picker ids -> state record] the pickers of the history that have been current
          cur,      \* the picker whose state the variables of P2C hold
          univ      \* number of connections of the history (length of the logged projections)

mvars == <<bank, cur, univ>>
tvars == <<vars, l, skip, mvars>>

TraceLog == ndJsonDeserialize("c14trace.ndjson")
NEv == Len(TraceLog)
MaxRej == 200

PidOf(e) == IF "p" \in DOMAIN e THEN e.p ELSE 0
SeqSet(s) == {s[i] : i \in 1..Len(s)}

\* the state of one picker as a record / a picker just built over the ready set r
Snap ==
  [ready |-> ready, now |-> now, infl |-> infl, picks |-> picks, dones |-> dones, succ |-> succ, lag |-> lag,
   lmin |-> lmin, lmax |-> lmax, lastPick |-> lastPick, lastDone |-> lastDone, prevPick |-> prevPick,
   badrun |-> badrun, goodrun |-> goodrun, failrun |-> failrun, half |-> half, ended |-> ended]
Fresh(r, t) ==
  [ready |-> r, now |-> t, infl |-> Zero, picks |-> Zero, dones |-> Zero, succ |-> [c \in Conns |-> InitSuccess],
   lag |-> Zero, lmin |-> Zero, lmax |-> Zero, lastPick |-> [c \in Conns |-> -1], lastDone |-> [c \in Conns |-> -1],
   prevPick |-> -1, badrun |-> Zero, goodrun |-> Zero, failrun |-> Zero, half |-> Zero, ended |-> Zero]
Load(s) ==
  /\ ready' = s.ready /\ now' = s.now
  /\ infl' = s.infl /\ picks' = s.picks /\ dones' = s.dones
  /\ succ' = s.succ /\ lag' = s.lag /\ lmin' = s.lmin /\ lmax' = s.lmax
  /\ lastPick' = s.lastPick /\ lastDone' = s.lastDone /\ prevPick' = s.prevPick
  /\ badrun' = s.badrun /\ goodrun' = s.goodrun /\ failrun' = s.failrun /\ half' = s.half /\ ended' = s.ended
  /\ out' = [op |-> "init"]

\* the logged projection equals the given post-state functions on the picker's ready connections
ProjOK(e, i2, s2, g2) ==
  /\ Len(e.infl) = univ /\ Len(e.succ) = univ /\ Len(e.lag) = univ
  /\ \A c \in ready : e.infl[c] = i2[c] /\ e.succ[c] = s2[c] /\ e.lag[c] = g2[c]

\* a picker serves the ready connections of its build: all of them (each is to be picked about once
\* per second under sustained traffic) and nothing else (every pick returns one of them); a fresh
\* picker has no picks and no completions
BuildWhy(e) ==
  IF ~(Len(e.held) = Len(e.ready) /\ SeqSet(e.held) = SeqSet(e.ready)) THEN {"ready-set"}
  ELSE IF \A c \in SeqSet(e.ready) : e.infl[c] = 0 THEN {} ELSE {"inflight"}

PickWhy(e) ==
  LET c == e.c IN
  IF PickFails(c, e.t) # {} THEN PickFails(c, e.t)
  ELSE IF ProjOK(e, PickPost(c, e.t).infl, succ, lag) THEN {} ELSE {"pick-effect"}

DoneWhy(e) ==
  LET c == e.c
      f == DoneFails(c, e.code, e.lat, e.t, e.succ[c], e.lag[c], e.ev = "dend") IN
  IF c \notin ready THEN f
  ELSE IF e.code \notin AllCodes THEN {"unknown-code"}
  ELSE IF f # {} THEN f
  ELSE LET p == DonePost(c, e.code, e.lat, e.t, e.succ[c], e.lag[c], e.ev = "dend")
       IN IF ProjOK(e, p.infl, p.succ, p.lag) THEN {} ELSE {"done-effect"}

BeginWhy(e) ==
  LET c == e.c IN
  IF BeginFails(c, e.t) # {} THEN BeginFails(c, e.t)
  ELSE IF ProjOK(e, BeginPost(c).infl, succ, lag) THEN {} ELSE {"done-effect"}

\* an operation that was invoked and did not return is never a step (P2C.tla: every operation returns)
FaultWhy(e) == FaultFails(e.op, e.kind, e.c, e.pending)

\* quiescent state after a concurrent run, judged by the invariants of P2C.tla on the logged state
StateWhy(e) ==
  (IF \A c \in ready : e.infl[c] = e.picks[c] - e.dones[c] /\ e.infl[c] >= 0 THEN {} ELSE {"inflight"})
  \cup (IF \A c \in ready : e.succ[c] \in 0..1000 THEN {} ELSE {"succ-range"})
  \cup (IF \A c \in ready : IF e.seen[c] = 0 THEN e.lag[c] = 0
                            ELSE e.lag[c] >= e.lmin[c] - 1 /\ e.lag[c] <= e.lmax[c] + 1 THEN {} ELSE {"lag-range"})

Reject(why) ==
  /\ IF Len(TLCGet(2)) < MaxRej THEN TLCSet(2, Append(TLCGet(2), [l |-> l, why |-> why])) ELSE TRUE
  /\ skip' = TRUE
  /\ UNCHANGED <<vars, mvars>>

TInit ==
  /\ InitWith({})
  /\ l = 1 /\ skip = TRUE
  /\ bank = <<>> /\ cur = 0 /\ univ = 0
  /\ TLCSet(1, 0) /\ TLCSet(2, <<>>)

\* a new history: no picker has a ready connection until its build is logged
TReset(e) ==
  /\ Load(Fresh({}, 0))
  /\ bank' = <<>> /\ cur' = 0 /\ univ' = e.n
  /\ skip' = FALSE

\* picker `cur` (the switch step has made the event's picker current) starts as a fresh instance
TBuild(e) ==
  /\ Load(Fresh(SeqSet(e.ready), e.t))
  /\ UNCHANGED <<skip, mvars>>

\* the event belongs to another picker than the current one: swap the states, consume nothing
TSwitch(p) ==
  /\ bank' = [q \in DOMAIN bank \cup {cur} |-> IF q = cur THEN Snap ELSE bank[q]]
  /\ Load(IF p \in DOMAIN bank THEN bank[p] ELSE Fresh({}, 0))
  /\ cur' = p
  /\ UNCHANGED <<l, skip, univ>>

TStep ==
  LET e == TraceLog[l] IN
  CASE e.ev = "reset" -> TReset(e)
    [] e.ev # "reset" /\ skip -> UNCHANGED <<vars, skip, mvars>>
    [] e.ev = "build" /\ ~skip ->
         LET why == BuildWhy(e) IN
         IF why = {} THEN TBuild(e) ELSE Reject(why)
    [] e.ev = "pick" /\ ~skip ->
         LET why == PickWhy(e) IN
         IF why = {} THEN Pick(e.c, e.t) /\ UNCHANGED <<skip, mvars>> ELSE Reject(why)
    [] e.ev = "done" /\ ~skip ->
         LET why == DoneWhy(e) IN
         IF why = {} THEN Done(e.c, e.code, e.lat, e.t, e.succ[e.c], e.lag[e.c]) /\ UNCHANGED <<skip, mvars>> ELSE Reject(why)
    [] e.ev = "dbegin" /\ ~skip ->
         LET why == BeginWhy(e) IN
         IF why = {} THEN DoneBegin(e.c, e.t) /\ UNCHANGED <<skip, mvars>> ELSE Reject(why)
    [] e.ev = "dend" /\ ~skip ->
         LET why == DoneWhy(e) IN
         IF why = {} THEN DoneEnd(e.c, e.code, e.lat, e.t, e.succ[e.c], e.lag[e.c]) /\ UNCHANGED <<skip, mvars>> ELSE Reject(why)
    [] e.ev = "fault" /\ ~skip -> Reject(FaultWhy(e))
    [] e.ev = "state" /\ ~skip ->
         LET why == StateWhy(e) IN
         IF why = {} THEN UNCHANGED <<vars, skip, mvars>> ELSE Reject(why)

TNext ==
  /\ l <= NEv
  /\ LET e == TraceLog[l] IN
       IF e.ev # "reset" /\ ~skip /\ PidOf(e) # cur
       THEN TSwitch(PidOf(e))
       ELSE /\ TStep
            /\ l' = l + 1
            /\ TLCSet(1, l)

TSpec == TInit /\ [][TNext]_tvars

\* evaluated once, when the chain is exhausted
Post == PrintT(ToJson([hw |-> TLCGet(1), n |-> NEv, rejected |-> TLCGet(2)]))

=============================================================================
