---------------------------- MODULE WheelBulkGen ----------------------------
(***************************************************************************)
(* Bulk behaviours of the abstract wheel (Wheel.tla) for property C10.     *)
(*                                                                         *)
(* The wheel keeps its key -> position index in a SafeMap                  *)
(* (lib/collection/safemap.go), which re-organises its two internal maps   *)
(* after 10 000 deletions.  To carry behaviours across those thresholds    *)
(* without 15 000 model keys, a model key here is a BLOCK: the driver      *)
(* expands every block to Mult real timers (block#0 .. block#Mult-1) that  *)
(* are always scheduled, moved and removed together.  Operations act on    *)
(* ranges of blocks.  The prediction is Wheel.tla's, per block: each of    *)
(* its Mult timers fires exactly once, at the block's due tick, with the   *)
(* value most recently set - however many index deletions happened before. *)
(***************************************************************************)
EXTENDS Wheel, Json

CONSTANTS NB,        \* number of blocks; Keys must be 1..NB
          Menu,      \* set of operations offered after the two opening steps
          Open1,     \* set of opening range-sets
          Open2,     \* set of opening range-removes
          Steps,     \* number of menu steps
          TailTicks

VARIABLES hist, phase

bvars == <<vars, hist, phase>>

InR(k, lo, hi) == k >= lo /\ k <= hi

SetR(p, t, lo, hi, v, d)  == [k \in Keys |-> IF InR(k, lo, hi) THEN [due |-> t + d, val |-> v] ELSE p[k]]
MoveR(p, t, lo, hi, d)    == [k \in Keys |-> IF InR(k, lo, hi) /\ p[k].due # 0 THEN [p[k] EXCEPT !.due = t + d] ELSE p[k]]
RemoveR(p, lo, hi)        == [k \in Keys |-> IF InR(k, lo, hi) THEN Absent ELSE p[k]]

MaxDueB(p) == LET ds == {p[k].due : k \in Keys} IN CHOOSE m \in ds : \A x \in ds : x <= m

BInit == Init /\ hist = <<>> /\ phase = 0

Apply(o) ==
  /\ UNCHANGED <<closed, drained>>
  /\ CASE o.op = "setr"    -> /\ pend' = SetR(pend, T, o.lo, o.hi, o.v, o.d) /\ T' = T
                              /\ out' = [op |-> "setr", lo |-> o.lo, hi |-> o.hi, v |-> o.v, d |-> o.d, pre |-> <<>>]
       [] o.op = "mover"   -> /\ pend' = MoveR(pend, T, o.lo, o.hi, o.d) /\ T' = T
                              /\ out' = [op |-> "mover", lo |-> o.lo, hi |-> o.hi, d |-> o.d, pre |-> <<>>]
       [] o.op = "remover" -> /\ pend' = RemoveR(pend, o.lo, o.hi) /\ T' = T
                              /\ out' = [op |-> "remover", lo |-> o.lo, hi |-> o.hi, pre |-> <<>>]
       [] o.op = "ticks"   -> /\ T' = T + o.n
                              /\ pend' = [k \in Keys |-> IF pend[k].due \in (T + 1)..(T + o.n) THEN Absent ELSE pend[k]]
                              /\ out' = [op |-> "ticks", pre |-> [i \in 1..o.n |-> Pairs(pend, DueAt(pend, T + i))]]
  /\ hist' = Append(hist, out')

BNext ==
  \/ /\ phase = 0 /\ \E o \in Open1 : Apply(o) /\ phase' = 1
  \/ /\ phase = 1 /\ \E o \in Open2 : Apply(o) /\ phase' = 2
  \/ /\ phase >= 2 /\ phase < 2 + Steps /\ \E o \in Menu : Apply(o) /\ phase' = phase + 1
  \/ /\ phase = 2 + Steps
     /\ LET n == (IF MaxDueB(pend) > T THEN MaxDueB(pend) - T ELSE 0) + TailTicks
        IN Apply([op |-> "ticks", n |-> n])
     /\ phase' = phase + 1

BSpec == BInit /\ [][BNext]_bvars

EmitB == phase = 3 + Steps => PrintT(ToJson(hist))

=============================================================================
