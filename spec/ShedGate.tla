------------------------------ MODULE ShedGate ------------------------------
(***************************************************************************)
(* The shedding gates in front of request handlers (property C09;          *)
(* api/handler/sheddinghandler.go, rpc/.../sheddinginterceptor.go) against *)
(* a stub Shedder: a request the shedder rejects never reaches the         *)
(* handler and reports nothing; an admitted request reaches the handler    *)
(* once and reports exactly one Pass or Fail, whatever the handler does    *)
(* (any status, an error, a deadline, a panic) - this is what brings the   *)
(* shedder's in-flight count back to zero (Shedder!P3).  Which of Pass or  *)
(* Fail is reported is not part of the statement and not predicted.        *)
(*                                                                         *)
(* Generator: every sequence of Len requests through one gate; `open` is   *)
(* the stub's admitted-minus-reported count, 0 after every request.        *)
(***************************************************************************)
EXTENDS Integers, Sequences, TLC, Json

Outcomes == {"ok", "s404", "s500", "s503", "deadline", "error", "panic"}
Len3 == 3

VARIABLES hist, open
vars == <<hist, open>>

Init == hist = <<>> /\ open = 0

Request(admit, outcome) ==
  /\ Len(hist) < Len3
  /\ open' = open + (IF admit THEN 1 ELSE 0) - (IF admit THEN 1 ELSE 0)
  /\ hist' = Append(hist, [admit |-> admit, outcome |-> outcome, called |-> (IF admit THEN 1 ELSE 0),
                           reports |-> (IF admit THEN 1 ELSE 0), open |-> open'])

Next == \E a \in BOOLEAN, o \in Outcomes : Request(a, IF a THEN o ELSE "ok")

Spec == Init /\ [][Next]_vars

Conserved == open = 0
Emit == Len(hist) = Len3 => PrintT(ToJson(hist))

=============================================================================
