----------------------------- MODULE RouterGen -----------------------------
(***************************************************************************)
(* Case generator for Router.tla (spec -> code replay, property C03).      *)
(*                                                                         *)
(* A behaviour registers at most MaxRoutes routes (good ones, duplicates,  *)
(* paths that do not start with '/', unsupported methods); every reachable *)
(* state is one route table.  For every table TLC evaluates the reference  *)
(* Outcome for *every* request of the universe ReqSeq (methods x raw       *)
(* paths, clean and unclean spellings) and prints one JSON case:           *)
(*   regs : the registrations with the predicted accept/reject             *)
(*   res  : for every request whose predicted answer is not 404 its index  *)
(*          in ReqSeq and the answer - the set of acceptable handlers with *)
(*          the parameter binding of each, or the Allow set of a 405;      *)
(*          every request not listed is predicted 404.                     *)
(* ReqSeq itself is printed once (header line).  With Ordered = TRUE the   *)
(* registrations are taken in a fixed order of the option list, so that a  *)
(* BFS run enumerates every table (as a multiset) exactly once; with       *)
(* Ordered = FALSE (simulation) the order is free.                         *)
(***************************************************************************)
EXTENDS Router, Json, SequencesExt

CONSTANTS MaxRoutes,   \* registrations per table
          Ordered,     \* BOOLEAN, see above
          BadPats,     \* patterns used for the registrations that must be rejected
          EmitAll,     \* TRUE: print every table; FALSE: only tables with MaxRoutes registrations
          First        \* option indexes offered to the first registration (chunking of big runs)

VARIABLES regs,        \* sequence of [m, p, abs, err]
          last         \* index of the last option taken (Ordered mode)

gvars == <<vars, regs, last>>

GoodOpts == {[m |-> m, p |-> p, abs |-> TRUE] : m \in Methods, p \in GoodPatterns}
BadOpts ==
  {[m |-> m, p |-> p, abs |-> TRUE] : m \in BadMethods, p \in BadPats}
  \cup {[m |-> m, p |-> p, abs |-> FALSE] : m \in Methods, p \in BadPats}
OptSeq == SetToSeq(GoodOpts \cup BadOpts)

ReqSeq == SetToSeq(ReqMethods \X RawPaths)

ASSUME PrintT(ToJson([reqs |-> ReqSeq]))

GInit == Init /\ regs = <<>> /\ last = 1

GRegister(i) ==
  /\ Len(regs) < MaxRoutes
  /\ Ordered => i >= last
  /\ regs = <<>> => i \in First
  /\ Register(OptSeq[i].m, OptSeq[i].p, OptSeq[i].abs)
  /\ regs' = Append(regs, [m |-> out'.m, p |-> out'.p, abs |-> out'.abs, err |-> out'.err])
  /\ last' = IF Ordered THEN i ELSE 1

GNext == \E i \in 1..Len(OptSeq) : GRegister(i)

GSpec == GInit /\ [][GNext]_gvars

\* index of the accepted registration of (m, p)
RegIndex(m, p) == CHOOSE i \in 1..Len(regs) : ~regs[i].err /\ regs[i].m = m /\ regs[i].p = p

\* cleaned segments of every request (constants, evaluated once)
NReq == Len(ReqSeq)
ReqSegs == [i \in 1..NReq |-> PathSegs(Clean(ReqSeq[i][2]))]
SegsUniverse == {ReqSegs[i] : i \in 1..NReq}

Encode(i, m, o) ==
  IF o.k = "handler"
    THEN [i |-> i, k |-> "h", c |-> {[r |-> RegIndex(m, c.p), b |-> c.bind] : c \in o.cands}]
  ELSE IF o.k = "405" THEN [i |-> i, k |-> "a", allow |-> o.allow]
  ELSE [i |-> i, k |-> "n"]

\* cleaned paths matched by some registered pattern of some method; every other request is
\* answered 404 (Router!QuietIs404, model-checked), so Outcome is evaluated for these only
Loud == {s \in SegsUniverse : \E r \in table : MatchesSegs(PatSegs(r.p), s)}

ResultsFor(loud) ==
  SelectSeq([i \in 1..NReq |->
               IF ReqSegs[i] \in loud
                 THEN Encode(i, ReqSeq[i][1], OutcomeSegs(table, ReqSeq[i][1], ReqSegs[i]))
                 ELSE [i |-> i, k |-> "n"]],
            LAMBDA e : e.k # "n")
Results == ResultsFor(Loud)

\* the table variable of Router.tla is exactly the accepted registrations
TableIsAccepted == table = {[m |-> regs[i].m, p |-> regs[i].p] : i \in {j \in 1..Len(regs) : ~regs[j].err}}

Emit == (EmitAll \/ Len(regs) = MaxRoutes) => PrintT(ToJson([regs |-> regs, res |-> Results]))

=============================================================================
