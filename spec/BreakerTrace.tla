---------------------------- MODULE BreakerTrace ----------------------------
(***************************************************************************)
(* Trace acceptor for concurrent use of one circuit breaker (property C01, *)
(* code -> spec).  The driver issues calls on a real breaker from several  *)
(* goroutines at a frozen virtual clock, with a seeded coin, and logs      *)
(*     reset                      a fresh breaker (quiescent)              *)
(*     inv   p api oc n           goroutine p starts a call of that kind   *)
(*                                (n = the acceptable-predicate, see       *)
(*                                Breaker.tla)                             *)
(*     coin  pm ans               the coin is asked about probability      *)
(*                                pm/10^6 (> 0) and answers ans            *)
(*     req   p                    the protected function starts (for Allow:*)
(*                                the promise was handed out)              *)
(*     fb    p arg                the fallback starts, with that argument  *)
(*     ret   p r                  the call returned / re-panicked with r   *)
(*     age                        (quiescent) the clock moved a full window*)
(* in the order of a global sequence number.  Two steps of every call are  *)
(* NOT logged and are placed by TLC:                                       *)
(*     Read(p)   the breaker looks at its window (between inv and          *)
(*               coin/req of the same goroutine)                           *)
(*     Mark(p)   the outcome is recorded (between req and ret)             *)
(* A history is accepted iff some placement explains every event under the *)
(* rules of Breaker.tla: the coin is consulted iff the window seen by the  *)
(* call is rejectable, and exactly with probability Num/Den of that        *)
(* window; a call is rejected iff the coin said so; a rejected call runs   *)
(* nothing but its fallback (argument ErrServiceUnavailable) and records   *)
(* nothing; an admitted call runs its function and records exactly one     *)
(* outcome, success iff Effect(kind) = 1.                                  *)
(* Acceptance: CONSTRAINT HighWater, POSTCONDITION Accepted (vlib).        *)
(***************************************************************************)
EXTENDS Integers, Sequences, FiniteSets, TLC, Json

TraceLog == ndJsonDeserialize("trace.ndjson")

VARIABLES l,     \* index of the next event
          s, t,  \* successes / total recorded in the trailing window
          pc     \* per goroutine call state

vars == <<l, s, t, pc>>

\* the tables and the threshold of the abstract specification, with the code's constants
B == INSTANCE Breaker WITH Names <- {}, RegNames <- {}, Size <- 40, Q <- 4, K2 <- 3, Prot <- 5, GrpcUnwraps <- FALSE, Kinds <- {},
                           st <- <<>>, out <- <<>>

Procs == 0..15
Idle == [s |-> "idle"]
Ev == TraceLog[l]
Is(name) == l <= Len(TraceLog) /\ TraceLog[l].e = name
Consume == l' = l + 1
SetPc(p, r) == pc' = [pc EXCEPT ![p] = r]

Init ==
  /\ l = 1 /\ s = 0 /\ t = 0
  /\ pc = [p \in Procs |-> Idle]
  /\ TLCSet(1, 1)

Quiet == \A p \in Procs : pc[p] = Idle

Reset ==
  /\ Is("reset") /\ Quiet
  /\ s' = 0 /\ t' = 0
  /\ UNCHANGED pc /\ Consume

Age ==
  /\ Is("age") /\ Quiet
  /\ s' = 0 /\ t' = 0
  /\ UNCHANGED pc /\ Consume

Inv ==
  /\ Is("inv") /\ pc[Ev.p] = Idle
  /\ SetPc(Ev.p, [s |-> "inv", k |-> B!Kd(Ev.api, Ev.oc, Ev.n)])
  /\ UNCHANGED <<s, t>> /\ Consume

Read(p) ==                                   \* internal
  /\ pc[p].s = "inv"
  /\ SetPc(p, [s |-> "read", k |-> pc[p].k, cs |-> s, ct |-> t])
  /\ UNCHANGED <<l, s, t>>

\* pm = round(p * 10^6); Num <= 2 * total keeps Num * 10^6 inside TLC's 32-bit integers
Matches(pm, cs, ct) ==
  LET x == (B!Num(cs, ct) * 1000000) \div B!Den(ct)
  IN pm \in (x - 1)..(x + 1)

Coin ==                                      \* the event does not say which call consulted
  /\ Is("coin")
  /\ \E p \in Procs :
        /\ pc[p].s = "read"
        /\ B!Rejectable(pc[p].cs, pc[p].ct)
        /\ Matches(Ev.pm, pc[p].cs, pc[p].ct)
        /\ SetPc(p, [s |-> IF Ev.ans THEN "rejected" ELSE "admitted", k |-> pc[p].k])
  /\ UNCHANGED <<s, t>> /\ Consume

Req ==
  /\ Is("req")
  /\ \/ pc[Ev.p].s = "admitted"
     \/ pc[Ev.p].s = "read" /\ ~B!Rejectable(pc[Ev.p].cs, pc[Ev.p].ct)   \* no consult needed
  /\ SetPc(Ev.p, [s |-> "running", k |-> pc[Ev.p].k])
  /\ UNCHANGED <<s, t>> /\ Consume

Mark(p) ==                                   \* internal: exactly one outcome per admitted call
  /\ pc[p].s = "running"
  /\ s' = s + B!Effect(pc[p].k) /\ t' = t + 1
  /\ SetPc(p, [s |-> "marked", k |-> pc[p].k])
  /\ UNCHANGED l

Fb ==
  /\ Is("fb")
  /\ pc[Ev.p].s = "rejected" /\ B!HasFallback(pc[Ev.p].k)
  /\ Ev.arg = "unavail"
  /\ SetPc(Ev.p, [s |-> "fbran", k |-> pc[Ev.p].k])
  /\ UNCHANGED <<s, t>> /\ Consume

Ret ==
  /\ Is("ret")
  /\ \/ /\ pc[Ev.p].s = "marked"
        /\ Ev.r = B!RetAdmitted(pc[Ev.p].k)
     \/ /\ pc[Ev.p].s = "rejected" /\ ~B!HasFallback(pc[Ev.p].k)
        /\ Ev.r = "unavail"
     \/ /\ pc[Ev.p].s = "fbran"
        /\ Ev.r = "fb"
  /\ SetPc(Ev.p, Idle)
  /\ UNCHANGED <<s, t>> /\ Consume

Next ==
  \/ Reset \/ Age \/ Inv \/ Coin \/ Req \/ Fb \/ Ret
  \/ \E p \in Procs : Read(p) \/ Mark(p)

Spec == Init /\ [][Next]_vars

\* the statement's invariant, evaluated in every state of every implementation trace:
\* a window that holds only successes is not rejectable
Inv_OnlySuccess == (s = t) => ~B!Rejectable(s, t)
Inv_Counts == s >= 0 /\ s <= t

HighWater == IF l > TLCGet(1) THEN TLCSet(1, l) ELSE TRUE     \* used as CONSTRAINT (always TRUE)
Accepted  == /\ PrintT(<<"VREG", "hw", TLCGet(1)>>)
             /\ TLCGet(1) = Len(TraceLog) + 1

=============================================================================
