--------------------------- MODULE TokenLimitConc ---------------------------
(***************************************************************************)
(* Concurrent callers on ONE token limiter (property C08: "... granted iff *)
(* n tokens are available ... so between second s and second s+t at most   *)
(* burst + rate x t events are admitted", whatever the interleaving of     *)
(* concurrent callers) - code -> spec.                                     *)
(*                                                                         *)
(* The driver (harness/c08, TestVerifC08Race) puts many goroutines on one  *)
(* real TokenLimiter.  A round is a sequence of PHASES separated by        *)
(* barriers; within a phase all callers use the same caller second, in     *)
(* front of a phase the clocks may move (dc caller seconds, ds <= dc       *)
(* server seconds).  What is recorded per phase is the multiset of         *)
(* results: obs[j] = [n, live, granted, cnt] = cnt calls for n tokens      *)
(* (live = FALSE: made with an already cancelled context) that returned    *)
(* `granted`, plus `extra` = script executions seen by the Redis server    *)
(* beyond the number of live calls (a client-side re-send after a reply    *)
(* that came late; 0 on a quiet machine).                                  *)
(*                                                                         *)
(* Every script execution is atomic in Redis, so whatever the interleaving *)
(* the results of a phase are those of SOME sequential order of the calls: *)
(* the module lets TLC search for an order in which every recorded result  *)
(* is the one TokenLimit!Allow predicts.  A round is accepted iff such an  *)
(* order exists for all its phases; a round for which TLC finds none is a  *)
(* disagreement of the real limiter with TokenLimit.tla (too many tokens   *)
(* granted for burst + rate*t, a request that can never be granted, a      *)
(* request denied although every order leaves enough tokens).              *)
(*                                                                         *)
(* Reductions.  (1) All equal denied results of a phase are consumed by    *)
(* one denied Allow step (TokenLimit!DenialIdempotent, model-checked: a    *)
(* repeated denial changes nothing).  (2) Granted results are consumed one *)
(* by one; for a round marked `canon` (many grants: the orders are too     *)
(* many to enumerate) only in the order of obs, all grants in front of the *)
(* denials - if any order explains the phase this one does, because        *)
(* between two clock steps the bucket is a counter (TokenLimit!AllowExact, *)
(* model-checked): moving a grant forward keeps it granted, leaves less    *)
(* for the calls it overtakes only where they are denied anyway, and ends  *)
(* in the same state.  Rounds not marked canon are searched in every       *)
(* order; the check runs its hand-made rounds both ways.                   *)
(*                                                                         *)
(* Not stronger than the statement: a call with a cancelled context that   *)
(* is denied needs no explanation (and if the script ran nevertheless and  *)
(* took tokens, that is an `extra` execution); one that is granted must be *)
(* explained like any other grant.                                         *)
(***************************************************************************)
EXTENDS TokenLimit, Json

CONSTANT Rounds   \* sequence of [rate, burst, phases]; phases: sequence of [dc, ds, canon, extra, lost, obs]
                  \* (dc = ds = 0 for the first phase); obs: sequence of [n, live, granted, cnt]

VARIABLES rd,     \* the round this behaviour explains (chosen in the initial state)
          ph,     \* number of the current phase
          plan,   \* the phases of the round from the current one on (Rounds is read in the initial state only)
          rem,    \* rem[j]: results obs[j] of the current phase not yet explained
          xtr     \* script executions without a recorded result still available in this phase

cvars == <<vars, rd, ph, plan, rem, xtr>>

Obs       == plan[1].obs
CountsOf(p) == [j \in 1..Len(p.obs) |-> p.obs[j].cnt]

CInit ==
  /\ Init
  /\ rd \in 1..Len(Rounds)
  /\ \E r \in {Rounds[rd]} :
       /\ rate = r.rate /\ burst = r.burst
       /\ plan = r.phases
       /\ rem = CountsOf(r.phases[1])
       /\ xtr = r.phases[1].extra
  /\ ph = 1

Canon      == plan[1].canon
GrantsLeft == {i \in DOMAIN rem : rem[i] > 0 /\ Obs[i].granted}
Lowest(j, S) == \A i \in S : j <= i
\* canonical order: grants first (in the order of obs), then the rest in the order of obs
Turn(j) == Canon => IF Obs[j].granted THEN Lowest(j, GrantsLeft)
                    ELSE GrantsLeft = {} /\ Lowest(j, {i \in DOMAIN rem : rem[i] > 0})

\* one call that returned true: a granted Allow step
Grant(j) ==
  /\ rem[j] > 0 /\ Obs[j].granted /\ Turn(j)
  /\ Allow(Obs[j].n) /\ out'.granted
  /\ rem' = [rem EXCEPT ![j] = @ - 1]
  /\ UNCHANGED <<rd, ph, plan, xtr>>

\* all calls of one kind that returned false: a denied Allow step (and its repetitions, DenialIdempotent)
Deny(j) ==
  /\ rem[j] > 0 /\ ~Obs[j].granted /\ Obs[j].live /\ Turn(j)
  /\ Allow(Obs[j].n) /\ ~out'.granted
  /\ rem' = [rem EXCEPT ![j] = 0]
  /\ UNCHANGED <<rd, ph, plan, xtr>>

\* calls with a cancelled context that returned false: no step of the limiter
DeadDenied(j) ==
  /\ rem[j] > 0 /\ ~Obs[j].granted /\ ~Obs[j].live /\ Turn(j)
  /\ rem' = [rem EXCEPT ![j] = 0]
  /\ UNCHANGED <<vars, rd, ph, plan, xtr>>

\* a script execution the driver has no result for (re-sent request): it may have taken tokens
Unobserved(j) ==
  /\ xtr > 0 /\ (Canon => GrantsLeft = {})
  /\ Allow(Obs[j].n) /\ out'.granted
  /\ xtr' = xtr - 1
  /\ UNCHANGED <<rd, ph, plan, rem>>

\* the phase is explained: every result, and every live call was a script execution (Redis is up and the
\* limiter in mode "redis" throughout: TokenLimit!Return) - lost = live calls the server never saw
Explained == (\A j \in DOMAIN rem : rem[j] = 0) /\ plan[1].lost = 0

NextPhase ==
  /\ Explained /\ Len(plan) > 1
  /\ \E p \in {plan[2]} :
       /\ IF p.dc = 0 /\ p.ds = 0 THEN UNCHANGED vars ELSE Tick(p.dc, p.ds)
       /\ rem' = CountsOf(p)
       /\ xtr' = p.extra
  /\ plan' = Tail(plan)
  /\ ph' = ph + 1
  /\ UNCHANGED rd

CNext ==
  \/ \E j \in DOMAIN rem : Grant(j) \/ Deny(j) \/ DeadDenied(j) \/ Unobserved(j)
  \/ NextPhase

CSpec == CInit /\ [][CNext]_cvars

\* glog (the order of the grants) and out do not influence what can still be explained
CView == <<rate, burst, now, sub, srv, tok, ts, ttlx, alive, mode, mon, rtok, rlast, rused, rfull, qtok, qlast, ib, rd, ph, plan, rem, xtr>>

Accepted == Explained /\ Len(plan) = 1

\* reports (evaluated as invariants, always TRUE)
Accept == Accepted => PrintT(ToJson([accept |-> rd]))

\* a state from which nothing more of the round can be explained
Stuck ==
  (~Accepted /\ ~ENABLED CNext) =>
     PrintT(ToJson([stuck |-> rd, ph |-> ph, rem |-> rem, avail |-> Filled, left |-> Len(plan) - 1]))

=============================================================================
