------------------------------ MODULE AuthRpc ------------------------------
(***************************************************************************)
(* RPC authentication (property C04, third sentence;                       *)
(* rpc/internal/auth/auth.go, serverinterceptors/authinterceptor.go).      *)
(*                                                                         *)
(* The store (a Redis hash) holds token "T1" for app "a1" and nothing for  *)
(* app "a2"; it either works or fails for the whole behaviour.  A call     *)
(* carries app/token metadata, each possibly absent or empty.              *)
(* The statement: reject a call lacking app/token metadata or whose token  *)
(* differs from the stored one; admit a call whose token matches; an app   *)
(* with no stored token, or a store failure, is rejected only in strict    *)
(* mode.  `cached` (the authenticator's 5-minute app -> token cache) is    *)
(* modelled only to make TLC drive the real code through hit and miss; the *)
(* verdict does not depend on it because the store does not change.        *)
(***************************************************************************)
EXTENDS Integers, Sequences, FiniteSets, TLC

CONSTANTS MaxCalls, Kinds

VARIABLES strict, store, kind, cached, n, out
core == <<strict, store, kind, cached, n>>
vars == <<core, out>>

Apps   == {"a1", "a2", "", "absent"}
Tokens == {"T1", "T2", "", "absent"}

Stored(app) == IF app = "a1" THEN "T1" ELSE ""

Verdict(app, tok) ==
  IF app \in {"", "absent"} \/ tok \in {"", "absent"} THEN "reject"
  ELSE IF store = "failing" \/ Stored(app) = "" THEN (IF strict THEN "reject" ELSE "admit")
  ELSE IF tok = Stored(app) THEN "admit" ELSE "reject"

Init ==
  /\ strict \in BOOLEAN /\ store \in {"ok", "failing"} /\ kind \in Kinds
  /\ cached = {} /\ n = 0
  /\ out = [op |-> "config", strict |-> strict, store |-> store, kind |-> kind]

Call(app, tok) ==
  /\ n < MaxCalls
  /\ n' = n + 1
  /\ cached' = IF app \notin {"", "absent"} /\ tok \notin {"", "absent"} /\ store = "ok" /\ Stored(app) # ""
                 THEN cached \cup {app} ELSE cached
  /\ out' = [op |-> "rpc", app |-> app, token |-> tok, expect |-> Verdict(app, tok),
             hit |-> (app \in cached)]
  /\ UNCHANGED <<strict, store, kind>>

Next == \E a \in Apps, t \in Tokens : Call(a, t)
Spec == Init /\ [][Next]_vars

MissingMetadataRejected ==
  out.op = "rpc" /\ (out.app \in {"", "absent"} \/ out.token \in {"", "absent"}) => out.expect = "reject"
MatchAdmitted == out.op = "rpc" /\ out.app = "a1" /\ out.token = "T1" /\ store = "ok" => out.expect = "admit"
DifferRejected == out.op = "rpc" /\ out.app = "a1" /\ out.token = "T2" /\ store = "ok" => out.expect = "reject"
LenientOnlyWhenNotStrict ==
  out.op = "rpc" /\ out.expect = "admit" /\ (store = "failing" \/ out.app = "a2") => ~strict
\* the cache cannot change a verdict
CacheIrrelevant == out.op = "rpc" /\ out.hit => out.app = "a1" /\ store = "ok"
=============================================================================
