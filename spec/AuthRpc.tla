------------------------------ MODULE AuthRpc ------------------------------
(***************************************************************************)
(* RPC authentication (property C04, third sentence;                       *)
(* rpc/internal/auth/auth.go, serverinterceptors/authinterceptor.go).      *)
(*                                                                         *)
(* The store (a Redis hash app -> token) is part of the state and changes  *)
(* between calls: a token is stored, replaced or deleted for app "a1", the *)
(* store goes down and comes back.  A call carries app/token metadata,     *)
(* each possibly absent or empty.                                          *)
(*                                                                         *)
(* The statement: reject a call lacking app/token metadata or whose token  *)
(* differs from the one stored for its app; admit a call whose token       *)
(* matches; an app with no stored token, or a store failure, is rejected   *)
(* only in strict mode.  It says nothing about caching.  An implementation *)
(* may remember the result of a SUCCESSFUL lookup for a while, so a call   *)
(* may be judged                                                            *)
(*   - by the store as it is now (token / no token / failure), or          *)
(*   - by a token the store held for this app at an earlier call that      *)
(*     could look it up successfully (store up, token present) within the  *)
(*     cache lifetime (`seen`).                                            *)
(* Nothing else explains a verdict: in particular an earlier failure or an *)
(* earlier "no token" answer is not something a later call may be judged   *)
(* by.  Where the two views disagree both verdicts are allowed ("either"). *)
(* The whole behaviour stays inside the cache lifetime (5 minutes); expiry *)
(* is not modelled.                                                        *)
(***************************************************************************)
EXTENDS Integers, Sequences, FiniteSets, TLC

CONSTANTS MaxCalls,   \* calls per behaviour
          MaxEnv,     \* store changes per behaviour
          Kinds,      \* {"unary", "stream"}
          CallSet     \* the <<app, token>> pairs offered

VARIABLES strict, kind,
          up,         \* the store answers
          cur,        \* token stored for app a1 ("" = none); app a2 never has one
          seen,       \* app -> tokens the store held at earlier successful-lookup opportunities
          n, nenv,
          lastenv,    \* the previous step was a store change (at most one between two calls)
          out
core == <<strict, kind, up, cur, seen, n, nenv, lastenv>>
vars == <<core, out>>

RealApps == {"a1", "a2"}
Toks == {"T1", "T2"}
Missing(x) == x \in {"", "absent"}

Stored(app) == IF app = "a1" THEN cur ELSE ""

\* the store as a fresh lookup sees it
NowView(app) == IF ~up THEN "fail" ELSE IF Stored(app) = "" THEN "none" ELSE Stored(app)

Judge(view, tok) ==
  IF view \in {"fail", "none"} THEN (IF strict THEN "reject" ELSE "admit")
  ELSE IF tok = view THEN "admit" ELSE "reject"

Views(app) == {NowView(app)} \cup (IF app \in RealApps THEN seen[app] ELSE {})

Verdicts(app, tok) ==
  IF Missing(app) \/ Missing(tok) THEN {"reject"}
  ELSE {Judge(v, tok) : v \in Views(app)}

Expect(app, tok) ==
  LET vs == Verdicts(app, tok)
  IN IF vs = {"admit"} THEN "admit" ELSE IF vs = {"reject"} THEN "reject" ELSE "either"

Init ==
  /\ strict \in BOOLEAN /\ kind \in Kinds /\ up \in BOOLEAN /\ cur \in {"", "T1"}
  /\ seen = [a \in RealApps |-> {}]
  /\ n = 0 /\ nenv = 0 /\ lastenv = FALSE
  /\ out = [op |-> "config", strict |-> strict, kind |-> kind, up |-> up, token |-> cur]

Call(app, tok) ==
  /\ n < MaxCalls
  /\ n' = n + 1 /\ lastenv' = FALSE
  /\ seen' = IF ~Missing(app) /\ ~Missing(tok) /\ app \in RealApps /\ up /\ Stored(app) # ""
               THEN [seen EXCEPT ![app] = @ \cup {Stored(app)}] ELSE seen
  /\ out' = [op |-> "rpc", app |-> app, token |-> tok, expect |-> Expect(app, tok),
             now |-> NowView(IF app \in RealApps THEN app ELSE "a2"),
             cached |-> (IF app \in RealApps THEN seen[app] ELSE {})]
  /\ UNCHANGED <<strict, kind, up, cur, nenv>>

\* the environment changes the store between two calls
SetToken(t) ==
  /\ 0 < n /\ n < MaxCalls /\ nenv < MaxEnv /\ ~lastenv /\ t # cur
  /\ cur' = t /\ nenv' = nenv + 1 /\ lastenv' = TRUE
  /\ out' = [op |-> "settoken", app |-> "a1", token |-> t]
  /\ UNCHANGED <<strict, kind, up, seen, n>>

Toggle ==
  /\ 0 < n /\ n < MaxCalls /\ nenv < MaxEnv /\ ~lastenv
  /\ up' = ~up /\ nenv' = nenv + 1 /\ lastenv' = TRUE
  /\ out' = [op |-> IF up THEN "down" ELSE "up"]
  /\ UNCHANGED <<strict, kind, cur, seen, n>>

Next == (\E c \in CallSet : Call(c[1], c[2])) \/ (\E t \in Toks \cup {""} : SetToken(t)) \/ Toggle
Spec == Init /\ [][Next]_vars

(* ---------------------------------------------------------------- call sets *)
AllCalls  == {<<a, t>> : a \in {"a1", "a2", "", "absent"}, t \in {"T1", "T2", "", "absent"}}
CoreCalls == {<<a, t>> : a \in RealApps, t \in Toks} \cup {<<"", "T1">>, <<"absent", "T1">>, <<"a1", "">>, <<"a1", "absent">>}
FewCalls  == {<<"a1", "T1">>, <<"a1", "T2">>, <<"a2", "T1">>, <<"absent", "absent">>}

(* ---------------------------------------------------------------- properties *)
IsCall == out.op = "rpc"
MissingMetadataRejected == IsCall /\ (Missing(out.app) \/ Missing(out.token)) => out.expect = "reject"
\* with nothing remembered the statement decides alone
FreshMatchAdmitted  == IsCall /\ out.cached = {} /\ out.now \in Toks /\ out.token = out.now => out.expect = "admit"
FreshDifferRejected == IsCall /\ out.cached = {} /\ out.now \in Toks /\ out.token \in Toks /\ out.token # out.now
                          => out.expect = "reject"
LenientOnlyWhenNotStrict ==
  IsCall /\ out.expect = "admit" /\ out.now \in {"fail", "none"} /\ out.cached = {} => ~strict
\* an earlier failure / "no token" answer never makes a wrong token acceptable later
ErrorsAreNotRemembered ==
  IsCall /\ out.now \in Toks /\ out.token \in Toks /\ out.token # out.now /\ out.token \notin out.cached
     => out.expect = "reject"
\* a token that was never stored is never admitted while a token is stored
StrictNeverLenient == IsCall /\ strict /\ out.expect # "reject" => out.token \in ({out.now} \cup out.cached)
=============================================================================
