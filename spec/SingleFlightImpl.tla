--------------------------- MODULE SingleFlightImpl ---------------------------
(***************************************************************************)
(* Mechanism-level models of lib/syncx/singleflight.go (flightGroup) and   *)
(* lib/syncx/lockedcalls.go (lockedGroup): one action per critical section *)
(* (mutex region), per WaitGroup operation and per begin/end of the user   *)
(* function, for a few processes that each make a bounded number of calls  *)
(* on a small key set.  TLC explores every interleaving and checks the     *)
(* call-level contract that SyncxTrace.tla demands of recorded histories:  *)
(*   - executions of one key never overlap,                                *)
(*   - SingleFlight: a waiter returns exactly the result of the execution  *)
(*     it joined, and that execution has finished; once an owner has       *)
(*     returned its call is no longer registered (so a later call executes *)
(*     afresh),                                                            *)
(*   - LockedCalls: every call runs its own fn exactly once and returns    *)
(*     its own result,                                                     *)
(*   - every call returns (no deadlock, no lost wake-up).                   *)
(* Mode selects the primitive: "sf" | "lc".                                *)
(***************************************************************************)
EXTENDS Integers, Sequences, FiniteSets, TLC

CONSTANTS Procs, Keys, MaxCalls, Mode,
          Variant   \* "code" = the mechanism as written; "unregister-early" = a deliberately broken
                    \* variant (the key is unregistered when fn starts) used as a vacuity guard:
                    \* TLC must find NoOverlap violated for it

VARIABLES pc,       \* [Procs -> control state]
          key,      \* [Procs -> key of the current call]
          ncalls,   \* [Procs -> calls made so far]
          reg,      \* [Keys -> call id registered in the map (0 = none)]
          wg,       \* [call id -> outstanding WaitGroup count]  (function over 1..nid)
          val,      \* [call id -> result (0 = not yet produced)]
          mine,     \* [Procs -> call id the process created or joined]
          nid,      \* call id counter
          got,      \* [Procs -> result returned by the last call]
          ran,      \* [Procs -> number of fn executions in the current call]
          nextv     \* fresh result values

vars == <<pc, key, ncalls, reg, wg, val, mine, nid, got, ran, nextv>>

Init ==
  /\ pc = [p \in Procs |-> "idle"]
  /\ key = [p \in Procs |-> CHOOSE k \in Keys : TRUE]
  /\ ncalls = [p \in Procs |-> 0]
  /\ reg = [k \in Keys |-> 0]
  /\ wg = <<>> /\ val = <<>>
  /\ mine = [p \in Procs |-> 0]
  /\ nid = 0
  /\ got = [p \in Procs |-> 0]
  /\ ran = [p \in Procs |-> 0]
  /\ nextv = 1

Invoke(p, k) ==
  /\ pc[p] = "idle" /\ ncalls[p] < MaxCalls
  /\ pc' = [pc EXCEPT ![p] = "enter"]
  /\ key' = [key EXCEPT ![p] = k]
  /\ ncalls' = [ncalls EXCEPT ![p] = @ + 1]
  /\ ran' = [ran EXCEPT ![p] = 0]
  /\ mine' = [mine EXCEPT ![p] = 0]
  /\ UNCHANGED <<reg, wg, val, nid, got, nextv>>

\* createCall / Do: the mutex region that looks the key up and registers a new call
Enter(p) ==
  /\ pc[p] = "enter"
  /\ IF reg[key[p]] # 0
       THEN /\ mine' = [mine EXCEPT ![p] = reg[key[p]]]
            /\ pc' = [pc EXCEPT ![p] = "wait"]
            /\ UNCHANGED <<reg, wg, val, nid>>
       ELSE /\ nid' = nid + 1
            /\ reg' = [reg EXCEPT ![key[p]] = nid + 1]
            /\ wg' = Append(wg, 1)
            /\ val' = Append(val, 0)
            /\ mine' = [mine EXCEPT ![p] = nid + 1]
            /\ pc' = [pc EXCEPT ![p] = "fnb"]
  /\ UNCHANGED <<key, ncalls, got, ran, nextv>>

\* wg.Wait() returns only when the count is zero
Wait(p) ==
  /\ pc[p] = "wait" /\ wg[mine[p]] = 0
  /\ IF Mode = "sf"
       THEN /\ got' = [got EXCEPT ![p] = val[mine[p]]]        \* shares the owner's result
            /\ pc' = [pc EXCEPT ![p] = "ret"]
       ELSE /\ pc' = [pc EXCEPT ![p] = "enter"]               \* lockedGroup: goto begin
            /\ UNCHANGED got
  /\ UNCHANGED <<key, ncalls, reg, wg, val, mine, nid, ran, nextv>>

FnBegin(p) ==
  /\ pc[p] = "fnb"
  /\ pc' = [pc EXCEPT ![p] = "fne"]
  /\ ran' = [ran EXCEPT ![p] = @ + 1]
  /\ reg' = IF Variant = "unregister-early" THEN [reg EXCEPT ![key[p]] = 0] ELSE reg
  /\ UNCHANGED <<key, ncalls, wg, val, mine, nid, got, nextv>>

FnEnd(p) ==
  /\ pc[p] = "fne"
  /\ val' = [val EXCEPT ![mine[p]] = nextv]
  /\ got' = [got EXCEPT ![p] = nextv]
  /\ nextv' = nextv + 1
  /\ pc' = [pc EXCEPT ![p] = "del"]
  /\ UNCHANGED <<key, ncalls, reg, wg, mine, nid, ran>>

\* deferred: lock; delete(map, key); unlock
Delete(p) ==
  /\ pc[p] = "del"
  /\ reg' = [reg EXCEPT ![key[p]] = 0]
  /\ pc' = [pc EXCEPT ![p] = "done"]
  /\ UNCHANGED <<key, ncalls, wg, val, mine, nid, got, ran, nextv>>

\* deferred: wg.Done()
Done(p) ==
  /\ pc[p] = "done"
  /\ wg' = [wg EXCEPT ![mine[p]] = 0]
  /\ pc' = [pc EXCEPT ![p] = "ret"]
  /\ UNCHANGED <<key, ncalls, reg, val, mine, nid, got, ran, nextv>>

Return(p) ==
  /\ pc[p] = "ret"
  /\ pc' = [pc EXCEPT ![p] = "idle"]
  /\ UNCHANGED <<key, ncalls, reg, wg, val, mine, nid, got, ran, nextv>>

Next ==
  \E p \in Procs :
     \/ \E k \in Keys : Invoke(p, k)
     \/ Enter(p) \/ Wait(p) \/ FnBegin(p) \/ FnEnd(p) \/ Delete(p) \/ Done(p) \/ Return(p)

Fair == \A p \in Procs : WF_vars(Enter(p) \/ Wait(p) \/ FnBegin(p) \/ FnEnd(p) \/ Delete(p) \/ Done(p) \/ Return(p))

Spec == Init /\ [][Next]_vars /\ Fair

(* ------------------------------------------------------------------ properties *)

InFn(p) == pc[p] = "fne"       \* between fn's begin and end

NoOverlap == \A p, q \in Procs : (p # q /\ InFn(p) /\ InFn(q)) => key[p] # key[q]

\* SingleFlight: at the moment a waiter returns, it holds the finished result of the call it joined
SfWaiterResult ==
  Mode = "sf" => \A p \in Procs :
      (pc[p] = "ret" /\ ran[p] = 0) => (val[mine[p]] # 0 /\ got[p] = val[mine[p]])

\* SingleFlight: an owner that is about to return is no longer registered => later calls run afresh
SfUnregisteredOnReturn ==
  Mode = "sf" => \A p \in Procs : (pc[p] = "ret" /\ ran[p] = 1) => reg[key[p]] # mine[p]

\* LockedCalls: whoever returns ran its own fn exactly once and returns its own value
LcOwnResult ==
  Mode = "lc" => \A p \in Procs : pc[p] = "ret" => (ran[p] = 1 /\ got[p] = val[mine[p]])

AtMostOnce == \A p \in Procs : ran[p] <= 1

\* every started call returns
Terminates == \A p \in Procs : (pc[p] # "idle") ~> (pc[p] = "idle")

=============================================================================
