----------------------------- MODULE RowMapHist -----------------------------
(***************************************************************************)
(* Row mapping of lib/store/sqlx over a HISTORY of queries in one process  *)
(* (property C11, second sentence; orm.go).                                *)
(*                                                                         *)
(* RowMap.tla judges one query at a time; its destination types are built  *)
(* from the case, so a type is known by its structure.  Here the           *)
(* destinations are DECLARED types.  A declared type has an identity (the  *)
(* declaration), a printed name (package name + "." + type name, what      *)
(* reflect.Type.String() and %T show) and a layout: lay[i] is the column   *)
(* that the `db` tag of field i names.  The printed name does NOT identify *)
(* the type: two packages may both be called `model` and both declare      *)
(* `Account`; two functions may both declare a local type `account`.       *)
(*                                                                         *)
(* "A query result is copied into the destination by column name through   *)
(* db tags" speaks of THE destination of THE query: what a query may do    *)
(* is a function of its own destination type (its own tags) and its own    *)
(* result set.  Nothing is carried from one query to the next - not which  *)
(* types were filled before, not through which access path, not in which   *)
(* order.  So a history is a sequence of independent queries, and every    *)
(* concatenation of histories is a history (the replay driver runs all     *)
(* histories of a shard, shuffled, in ONE process for that reason).        *)
(*                                                                         *)
(* The catalogue Decl lists the declared types (the Go declarations live   *)
(* in harness/c11; the driver checks every declaration against the `name`  *)
(* and `lay` that the steps below carry).  A history queries types that    *)
(* print the same name, in every order, repeated and interleaved, each     *)
(* query through its own access path (Conn / transaction / prepared        *)
(* statement / sqlc pass-through) into *T, *[]T or *[]*T.  Every field is  *)
(* tagged and every named column is delivered (plus, optionally, the extra *)
(* column 4 in front), no NULLs: the statement then allows exactly one     *)
(* outcome, the rows filled by the type's OWN tags.  RowMap.tla's tagged   *)
(* flat shapes are the special case lay = <<1, .., nf>>.                   *)
(*                                                                         *)
(* Cells as in RowMap.tla: column id c in row r holds 10*c + r.            *)
(***************************************************************************)
EXTENDS Integers, Sequences, FiniteSets, TLC, SequencesExt

CONSTANTS Decl,    \* catalogue: sequence of [id |-> declaration, name |-> printed name, lay |-> <<column of field 1, ..>>]
          MaxLen,  \* histories have 2..MaxLen queries
          FreeLen, \* histories of at most FreeLen queries choose the access path per query; longer ones
                   \* use the first query's path throughout (destinations are still chosen per query)
          Vias,    \* access paths: subset of {"conn", "tx", "stmt", "nocache"}
          Dests,   \* subset of {"one", "vals", "ptrs"}: *T, *[]T, *[]*T
          Ords,    \* column orders of the result sets: subset of {"asc", "desc", "rotl", "rotr"} (by column id)
          Extras,  \* subset of BOOLEAN: may the result sets carry the extra column (in front)
          Rows     \* rows every result set delivers (>= 1)

VARIABLES hist, mode, done
vars == <<hist, mode, done>>

Extra == 4
Cell(c, r) == 10 * c + r

Types == 1..Len(Decl)
NF(t) == Len(Decl[t].lay)

\* the catalogue is sharp: types are distinct declarations, a layout names distinct columns, and two types
\* that print the same name differ in their layout (else no history could tell them apart)
ASSUME /\ \A t \in Types : /\ NF(t) \in 1..3
                           /\ \A i, j \in 1..NF(t) : Decl[t].lay[i] \in 1..3 /\ (i # j => Decl[t].lay[i] # Decl[t].lay[j])
       /\ \A t, u \in Types : t # u => Decl[t].id # Decl[u].id
       /\ \A t, u \in Types : (t # u /\ Decl[t].name = Decl[u].name) => Decl[t].lay # Decl[u].lay
       /\ \A t \in Types : \E u \in Types : u # t /\ Decl[u].name = Decl[t].name
       /\ Rows >= 1 /\ MaxLen >= 2

(* ---------------------------------------------------------------- one query *)

Asc(t) == SortSeq(Decl[t].lay, <)
Rot(s) == IF Len(s) <= 1 THEN s ELSE Tail(s) \o <<Head(s)>>
ColsIn(t, ord) ==
  CASE ord = "asc"  -> Asc(t)
    [] ord = "desc" -> Reverse(Asc(t))
    [] ord = "rotl" -> Rot(Asc(t))
    [] OTHER        -> Rot(Reverse(Asc(t)))
ColsOf(t, ord, extra) == (IF extra THEN <<Extra>> ELSE <<>>) \o ColsIn(t, ord)

Data(cols) == [r \in 1..Rows |-> [j \in 1..Len(cols) |-> Cell(cols[j], r)]]

\* rows the API looks at
Used(d) == IF d = "one" THEN 1 ELSE Rows

\* field i receives the cell of the column that ITS OWN tag names - whatever the order of the columns,
\* whatever else the result set carries, whatever was queried before
Expect(t, d) == [r \in 1..Used(d) |-> [i \in 1..NF(t) |-> Cell(Decl[t].lay[i], r)]]

Step(t, d, v, m) ==
  LET cols == ColsOf(t, m.ord, m.extra)
  IN [op |-> "hquery", t |-> Decl[t].id, ti |-> t, name |-> Decl[t].name, lay |-> Decl[t].lay,
      dest |-> d, via |-> v, strict |-> m.strict, cols |-> cols, data |-> Data(cols),
      allow |-> {[k |-> "rows", rows |-> Expect(t, d)]}]

(* ---------------------------------------------------------------- machine *)

Init ==
  /\ hist = <<>> /\ done = FALSE
  /\ mode \in [len : 2..MaxLen, strict : BOOLEAN, ord : Ords, extra : Extras]

Query ==
  /\ ~done /\ Len(hist) < mode.len
  /\ \E t \in Types, d \in Dests, v \in Vias :
       /\ (hist # <<>> => Decl[t].name = hist[1].name)           \* types that print the same name
       /\ (v = "nocache" => mode.strict)                         \* the pass-through has no partial variant
       /\ (mode.len > FreeLen /\ hist # <<>> => v = hist[1].via)
       /\ hist' = Append(hist, Step(t, d, v, mode))
  /\ UNCHANGED <<mode, done>>

Finish == ~done /\ Len(hist) = mode.len /\ done' = TRUE /\ UNCHANGED <<hist, mode>>

Next == Query \/ Finish

Spec == Init /\ [][Next]_vars

(* ---------------------------------------------------------------- properties *)

\* every query of every history is filled by the tags of its own type, and by nothing else: the expectation
\* of step k is the expectation of the one-query history made of step k alone
FilledByOwnTags ==
  \A k \in 1..Len(hist) :
     LET s == hist[k]
     IN /\ Cardinality(s.allow) = 1
        /\ \A o \in s.allow : /\ o.k = "rows" /\ Len(o.rows) = Used(s.dest)
                              /\ \A r \in 1..Len(o.rows), i \in 1..Len(s.lay) : o.rows[r][i] = Cell(s.lay[i], r)
        /\ s.allow = Step(s.ti, s.dest, s.via, mode).allow

\* the expectation does not depend on the order of the columns nor on the extra column
OrderIndependent ==
  \A k \in 1..Len(hist) : \A o \in hist[k].allow : \A r \in 1..Len(o.rows), i \in 1..Len(hist[k].lay) :
     \E j \in 1..Len(hist[k].cols) : hist[k].cols[j] = hist[k].lay[i] /\ hist[k].data[r][j] = o.rows[r][i]

\* a history stays within one printed name
OneName == \A k \in 1..Len(hist) : hist[k].name = hist[1].name

=============================================================================
