-------------------------- MODULE RollingWindowGen --------------------------
(***************************************************************************)
(* Behaviour generator for RollingWindow.tla (spec -> code replay, C09).   *)
(*                                                                         *)
(* A behaviour is a sequence of at most MaxOps macro-steps                 *)
(*     [advance d ticks] ; operation                                       *)
(* with operation = add(v) | addn(v, n) (n adds of v issued by concurrent  *)
(* goroutines at a frozen clock; they commute) | reduce, followed by a     *)
(* final step that reduces, then walks the window out bucket by bucket     *)
(* (Size + 1 further advances of one bucket interval, reducing after       *)
(* each), so that every expiry boundary of what was added is observed.     *)
(* Every reduce carries what the abstract window reports: the non-empty    *)
(* visible buckets (oldest first) and the totals.                          *)
(*                                                                         *)
(* Overlap dimension.  operation = overlap(e, gate, v): a reduction is     *)
(* started; while its callback is held (after it has read `gate` buckets)  *)
(* the clock moves on by e ticks and another goroutine issues add(v); then *)
(* the callback is let go.  Reduce is ONE atomic action of                 *)
(* RollingWindow.tla, so between its invocation and its return it takes    *)
(* effect at one point of the environment's sequence                       *)
(*       <reduce invoked> ; Advance(e) ; Add(v) ; <reduce returns>         *)
(* i.e. it reports the window of one of three moments (`moments`): before  *)
(* the advance, after the advance, after the add - never a mixture.  When  *)
(* the reduction visits fewer than `gate` buckets nothing overlaps and it  *)
(* must report `seq` (= the first moment).  Afterwards the add is part of  *)
(* the state (`after`, and everything that follows, including the walk-    *)
(* out).  A behaviour ends after its OvMax-th overlap.                     *)
(***************************************************************************)
EXTENDS RollingWindow, Json

CONSTANTS MaxOps,      \* operations per behaviour
          Burst,       \* set of n offered to addn
          OvMax,       \* overlaps per behaviour (0: none are generated)
          OvAdvances,  \* set of e: ticks by which the clock moves while the reduction is held
          OvGates,     \* set of gate: buckets read by the callback before it is held (0: held before the first)
          OvVals       \* set of values added by the overlapping goroutine

VARIABLES hist, nops, fin, novl

gvars == <<vars, hist, nops, fin, novl>>

Report(b) == [buckets |-> Seen(b), sum |-> TotalSum(b), count |-> TotalCount(b)]

\* the reports of an atomic Reduce placed before Advance(e), between Advance(e) and Add(v), after Add(v);
\* s = bucket boundaries passed by the advance
Moments(b, s, v) == <<Report(b), Report(Shift(b, s)), Report(AddTo(Shift(b, s), v, 1))>>

OvOpen == OvMax = 0 \/ novl < OvMax
\* when overlaps are generated a behaviour holds at least one: its last operation is an overlap if none came before
OvDue == OvMax > 0 /\ novl = 0 /\ nops + 1 = MaxOps

GInit == Init /\ hist = <<>> /\ nops = 0 /\ fin = FALSE /\ novl = 0

Macro(d, o) ==
  LET b1 == Shift(bk, Cur(now + d) - Cur(now)) IN
  /\ ~fin /\ nops < MaxOps /\ OvOpen /\ ~OvDue
  /\ nops' = nops + 1
  /\ now' = now + d
  /\ UNCHANGED <<fin, log, novl>>
  /\ CASE o.op = "add" ->
            /\ bk' = AddTo(b1, o.v, 1)
            /\ out' = [op |-> "add", d |-> d, v |-> o.v]
       [] o.op = "addn" ->
            /\ bk' = AddTo(b1, o.v, o.n)
            /\ out' = [op |-> "addn", d |-> d, v |-> o.v, n |-> o.n]
       [] o.op = "reduce" ->
            /\ bk' = b1
            /\ out' = [op |-> "reduce", d |-> d] @@ Report(b1)
  /\ hist' = Append(hist, out')

Ops ==
  {[op |-> "add", v |-> v] : v \in Vals}
  \cup {[op |-> "addn", v |-> v, n |-> n] : v \in {CHOOSE x \in Vals : TRUE}, n \in Burst}
  \cup {[op |-> "reduce"]}

Overlap(d, e, g, v) ==
  LET b1 == Shift(bk, Cur(now + d) - Cur(now))
      s == Cur(now + d + e) - Cur(now + d)
      b2 == AddTo(Shift(b1, s), v, 1) IN
  /\ ~fin /\ nops < MaxOps /\ novl < OvMax
  /\ nops' = nops + 1
  /\ novl' = novl + 1
  /\ now' = now + d + e
  /\ bk' = b2
  /\ out' = [op |-> "overlap", d |-> d, e |-> e, s |-> s, gate |-> g, v |-> v,
             seq |-> Report(b1), moments |-> Moments(b1, s, v), after |-> Report(b2)]
  /\ hist' = Append(hist, out')
  /\ UNCHANGED <<fin, log>>

Finish ==
  /\ ~fin /\ (nops = MaxOps \/ ~OvOpen)
  /\ fin' = TRUE
  /\ now' = now + (Size + 1) * Q
  /\ bk' = Shift(bk, Size + 1)
  /\ out' = [op |-> "finish", step |-> Q, walk |-> [i \in 1..(Size + 2) |-> Report(Shift(bk, i - 1))]]
  /\ hist' = Append(hist, out')
  /\ UNCHANGED <<nops, log, novl>>

GNext ==
  \/ \E d \in Advances, o \in Ops : Macro(d, o)
  \/ \E d \in Advances, e \in OvAdvances, g \in OvGates, v \in OvVals : Overlap(d, e, g, v)
  \/ Finish

GSpec == GInit /\ [][GNext]_gvars

Emit == fin => PrintT(ToJson(hist))

=============================================================================
