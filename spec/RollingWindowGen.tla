-------------------------- MODULE RollingWindowGen --------------------------
(***************************************************************************)
(* Behaviour generator for RollingWindow.tla (spec -> code replay, C09).   *)
(*                                                                         *)
(* A behaviour is a sequence of at most MaxOps macro-steps                 *)
(*     [advance d ticks] ; operation                                       *)
(* with operation = add(v) | addn(v, n) (n adds of v issued by concurrent  *)
(* goroutines at a frozen clock; they commute) | reduce, followed by a     *)
(* final step that reduces, then walks the window out bucket by bucket     *)
(* (Size + 1 further advances of one bucket interval, reducing after       *)
(* each), so that every expiry boundary of what was added is observed.     *)
(* Every reduce carries what the abstract window reports: the non-empty    *)
(* visible buckets (oldest first) and the totals.                          *)
(***************************************************************************)
EXTENDS RollingWindow, Json

CONSTANTS MaxOps,   \* operations per behaviour
          Burst     \* set of n offered to addn

VARIABLES hist, nops, fin

gvars == <<vars, hist, nops, fin>>

Report(b) == [buckets |-> Seen(b), sum |-> TotalSum(b), count |-> TotalCount(b)]

GInit == Init /\ hist = <<>> /\ nops = 0 /\ fin = FALSE

Macro(d, o) ==
  LET b1 == Shift(bk, Cur(now + d) - Cur(now)) IN
  /\ ~fin /\ nops < MaxOps
  /\ nops' = nops + 1
  /\ now' = now + d
  /\ UNCHANGED <<fin, log>>
  /\ CASE o.op = "add" ->
            /\ bk' = AddTo(b1, o.v, 1)
            /\ out' = [op |-> "add", d |-> d, v |-> o.v]
       [] o.op = "addn" ->
            /\ bk' = AddTo(b1, o.v, o.n)
            /\ out' = [op |-> "addn", d |-> d, v |-> o.v, n |-> o.n]
       [] o.op = "reduce" ->
            /\ bk' = b1
            /\ out' = [op |-> "reduce", d |-> d] @@ Report(b1)
  /\ hist' = Append(hist, out')

Ops ==
  {[op |-> "add", v |-> v] : v \in Vals}
  \cup {[op |-> "addn", v |-> v, n |-> n] : v \in {CHOOSE x \in Vals : TRUE}, n \in Burst}
  \cup {[op |-> "reduce"]}

Finish ==
  /\ ~fin /\ nops = MaxOps
  /\ fin' = TRUE
  /\ now' = now + (Size + 1) * Q
  /\ bk' = Shift(bk, Size + 1)
  /\ out' = [op |-> "finish", step |-> Q, walk |-> [i \in 1..(Size + 2) |-> Report(Shift(bk, i - 1))]]
  /\ hist' = Append(hist, out')
  /\ UNCHANGED <<nops, log>>

GNext == (\E d \in Advances, o \in Ops : Macro(d, o)) \/ Finish

GSpec == GInit /\ [][GNext]_gvars

Emit == fin => PrintT(ToJson(hist))

=============================================================================
