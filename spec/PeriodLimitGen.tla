-------------------------- MODULE PeriodLimitGen --------------------------
(***************************************************************************)
(* Behaviour generator for PeriodLimit.tla (spec -> code replay, C08).     *)
(* A behaviour is [cfg] followed by MaxLen steps take/burst/adv, each with *)
(* the code(s) the specification predicts.  The Go driver only compares.   *)
(***************************************************************************)
EXTENDS PeriodLimit, Json

CONSTANTS MaxLen

VARIABLES hist

gvars == <<vars, hist>>

GInit == Init /\ hist = <<out>>

GNext ==
  /\ Len(hist) < MaxLen + 1
  /\ Next
  \* two advances in a row are one advance: keep generation focused
  /\ ~(out.op = "adv" /\ out'.op = "adv")
  /\ hist' = Append(hist, out')

GSpec == GInit /\ [][GNext]_gvars

Emit == (Len(hist) = MaxLen + 1) => PrintT(ToJson(hist))

=============================================================================
