---------------------------- MODULE MRContractGen ----------------------------
(***************************************************************************)
(* Case generator for MRContract.tla (property C07).  The contract is a    *)
(* relation, so a "behaviour" is one case: every initial state is one      *)
(* scenario of the configured family and the invariant Emit prints it as   *)
(* one JSON line together with the set of allowed results and the          *)
(* exactly-once obligations.  The Go driver (harness/c07) runs the real    *)
(* entry point with user functions that act out the scenario and only      *)
(* checks membership / equality against these fields.                      *)
(***************************************************************************)
EXTENDS MRContract, Json

CONSTANT Orders   \* subset of {"cancel-before-write", "ctx-before-write", "workers-held"}: directed scenarios to add

CONSTANTS ValFams,  \* families (like Fams) that are also generated with the non-ordinary value kinds
          Vals      \* subset of ValueKinds \ {"ord"}

VARIABLES val,     \* value kind the user functions write (MRContract!ValueKinds); the contract does not depend on it
          sc, ord  \* ord = "": plain scenario; else what the driver establishes while the call runs (MRContract!Directed)

GInitOrd ==
         \/ IsScenario(sc) /\ ord = ""
         \/ \E o \in Orders \cap {"cancel-before-write", "ctx-before-write"}, a \in {"MapReduce", "MapReduceChan"}, w \in 1..2,
               b1 \in {"cancelE", "cancelNil", "w0", "w1"}, b2 \in {"w0", "w1"}, c \in {"bg", "during"} :
              /\ sc = [api |-> a, n |-> 2, workers |-> w, mb |-> <<b1, b2>>, rstop |-> 0, rw |-> 1, rend |-> "ret",
                        genk |-> -1, ctx |-> c]
              /\ ord = o /\ Directed(sc, o)
         \/ \E o \in Orders \cap {"workers-held"}, a \in {"MapReduce", "MapReduceChan", "MapReduceVoid", "ForEach"},
               n \in 3..4, w \in 1..2, b \in {"w0", "w1"} :
              /\ sc = [api |-> a, n |-> n, workers |-> w, mb |-> [i \in 1..n |-> b], rstop |-> -1,
                        rw |-> (IF a \in {"MapReduce", "MapReduceChan"} THEN 1 ELSE 0), rend |-> "ret", genk |-> -1, ctx |-> "bg"]
              /\ ord = o /\ Directed(sc, o)
GInit ==
  \/ /\ val \in Vals /\ Vals \subseteq ValueKinds /\ ord = "" /\ IsScenarioIn(ValFams, sc)
  \/ /\ val = "ord" /\ GInitOrd
GNext == UNCHANGED <<sc, ord, val>>
GSpec == GInit /\ [][GNext]_<<sc, ord, val>>

CaseOf(s) == [order |-> ord, val |-> val, api |-> s.api, n |-> s.n, workers |-> s.workers, mb |-> s.mb, rstop |-> s.rstop, rw |-> s.rw,
              rend |-> s.rend, genk |-> s.genk, ctx |-> s.ctx,
              allowed |-> IF ord \in {"cancel-before-write", "ctx-before-write"} THEN OrderedOutcomes(s) ELSE Outcomes(s),
              mapAll |-> MustMapAll(s), deliverAll |-> MustDeliverAll(s),
              written |-> Written(s),
              late |-> HasLate(s),
              \* error name per canceller (index 1 = the reducer, k+1 = the mapper of item k), "" = does not cancel
              cerr |-> [k \in 1..(s.n + 1) |->
                         IF k = 1 THEN (IF s.rend = "cancel" THEN "ER" ELSE "")
                         ELSE IF s.mb[k - 1] \in {"cancelE", "cancelNil"} THEN ErrOf(s, k - 1) ELSE ""]]

Emit == PrintT(ToJson(CaseOf(sc)))
SaneInv == Sane(sc) /\ (ord \in {"cancel-before-write", "ctx-before-write"} => (OrderedOutcomes(sc) # {} /\ OrderedOutcomes(sc) \subseteq Outcomes(sc)))
=============================================================================
