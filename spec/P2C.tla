-------------------------------- MODULE P2C --------------------------------
(***************************************************************************)
(* P2C balancer (property C14; rpc/internal/balancer/p2c/p2c.go).          *)
(*                                                                         *)
(* Integer abstraction.  Time `now` in milliseconds; scores per mille as   *)
(* in the code (0..1000, healthy > 500); latencies and the latency         *)
(* estimate in microseconds.  The state is what the statement talks about: *)
(* per ready connection the in-flight count, picks, completions, success   *)
(* score, latency estimate with the smallest/largest latency observed,     *)
(* and the times of the last pick / last completion.                       *)
(*                                                                         *)
(* Which connection a pick returns is an existential choice (the random    *)
(* pair is not modelled); with exactly two ready connections the           *)
(* force-pick rule makes "picked about once per second under sustained     *)
(* traffic" exact and it is part of Pick's guard (StarveOK).               *)
(*                                                                         *)
(* A completion moves the score towards its target (1000 acceptable, 0     *)
(* unacceptable).  The statement fixes the direction, the range and that   *)
(* progress is fast enough for "unhealthy after a bounded number of        *)
(* completions"; the EWMA weight w = e^(-td/10 s) of the mechanism enters  *)
(* only as an upper bound WHi(td) on the remaining distance (moving faster *)
(* is allowed, e.g. the first completion of a connection jumps to the      *)
(* target).  One unit of slack absorbs the float -> integer truncation.    *)
(* The new score s2 and new estimate l2 are parameters of Done: existential *)
(* in Next (from a small candidate set when model checking), taken from    *)
(* the log in P2CTrace.tla.                                                *)
(***************************************************************************)
EXTENDS Integers, Sequences, FiniteSets, TLC

CONSTANTS Conns,       \* universe of connection ids (1..NMax)
          MCReady,     \* ready set used by Init when model checking
          MCCodes,     \* completion codes offered by Next
          MCLats,      \* latencies (us) offered by Next
          MCSteps,     \* time advances (ms) offered by Next
          RunLen,      \* length of the runs in UnhealthyBound / Recover
          MCSplit,     \* Next also offers completions split into begin / end (possibly out of time order)
          FailB        \* a backend whose calls all fail is unhealthy after this many completions (>= 1 ms apart)

VARIABLES ready,       \* the picker's ready connections (fixed after Init; a variable so that traces can vary it)
          now,         \* ms
          infl, picks, dones,   \* [Conns -> Nat]
          half,        \* [Conns -> Nat] completions that have begun (in-flight decremented, time read) but
                       \* whose score/estimate update is still to come: with concurrent callers the
                       \* updates of one connection may be applied out of the order of the times they read
          ended,       \* [Conns -> Nat] completions whose update has been applied
          succ,        \* [Conns -> 0..1000]
          lag,         \* [Conns -> Nat] latency estimate, us (0 = none yet)
          lmin, lmax,  \* [Conns -> Nat] smallest / largest latency observed (meaningful once dones > 0)
          lastPick, lastDone,   \* [Conns -> Int] ms, -1 = never
          prevPick,    \* time of the previous pick of the picker, -1 = none
          badrun, goodrun,      \* [Conns -> 0..RunLen] consecutive (un)acceptable completions spaced >= 1 s
          failrun,     \* [Conns -> 0..FailB] unacceptable completions >= 1 ms after the previous completion
                       \* since the last acceptable one (completions at the same instant carry no
                       \* elapsed time and are not counted)
          out

vars == <<ready, now, infl, picks, dones, succ, lag, lmin, lmax, lastPick, lastDone, prevPick, badrun, goodrun, failrun, half, ended, out>>
core == <<ready, now, infl, picks, dones, succ, lag, lmin, lmax, lastPick, lastDone, prevPick, badrun, goodrun, failrun, half, ended>>

InitSuccess == 1000
Throttle    == 500      \* healthy <=> succ > Throttle
ForcePick   == 1000     \* ms

\* completion codes (names of google.golang.org/grpc/codes, "nil" = no error, "plain" = a non-status error)
AllCodes == {"nil", "plain", "OK", "Canceled", "Unknown", "InvalidArgument", "DeadlineExceeded", "NotFound",
             "AlreadyExists", "PermissionDenied", "ResourceExhausted", "FailedPrecondition", "Aborted",
             "OutOfRange", "Unimplemented", "Internal", "Unavailable", "DataLoss", "Unauthenticated"}
Unacceptable == {"DeadlineExceeded", "Internal", "Unavailable", "DataLoss", "Unimplemented"}
Acceptable(code) == code \notin Unacceptable

\* <<td in ms, ceil(1000 * e^(-td / 10 s))>>: upper bound of the per-mille weight of the old score
\* for every elapsed time >= td (the weight decreases with td)
WTab == << <<0, 1000>>, <<100, 991>>, <<200, 981>>, <<500, 952>>, <<1000, 905>>, <<2000, 819>>,
           <<5000, 607>>, <<10000, 368>>, <<20000, 136>>, <<50000, 7>>, <<100000, 1>> >>
WHi(td) == LET i == CHOOSE i \in 1..Len(WTab) :
                       /\ WTab[i][1] <= td
                       /\ \A j \in 1..Len(WTab) : WTab[j][1] <= td => j <= i
           IN WTab[i][2]

Abs(x) == IF x < 0 THEN -x ELSE x
Min2(a, b) == IF a < b THEN a ELSE b
Max2(a, b) == IF a > b THEN a ELSE b
Target(acc) == IF acc THEN 1000 ELSE 0

\* names of the clauses a new score violates
SuccFails(old, new, acc, td) ==
  (IF new \in 0..1000 THEN {} ELSE {"succ-range"})
  \cup (IF (acc /\ new >= old - 1) \/ (~acc /\ new <= old) THEN {} ELSE {"succ-direction"})
  \cup (IF Abs(new - Target(acc)) <= (Abs(old - Target(acc)) * WHi(td)) \div 1000 + 1 THEN {} ELSE {"succ-progress"})

\* the estimate stays between the smallest and the largest latency observed (lo/hi include the
\* latency of this completion)
LagFails(new, lo, hi) == IF new >= lo - 1 /\ new <= hi + 1 THEN {} ELSE {"lag-range"}

\* time since the previous completion of the connection as this completion sees it; a completion
\* that read its time before the previous one did sees no elapsed time (w = 1: nothing moves)
Td(c, t) == IF lastDone[c] < 0 THEN 100000 ELSE Max2(0, t - lastDone[c])

\* "a backend whose calls all fail becomes unhealthy after a bounded number of completions": the
\* number of unacceptable completions (each at least 1 ms after the previous completion, none
\* acceptable in between) after which the score must be at or below the throttle.  FailB is
\* generous: an ideal, un-truncated EWMA with the 10 s decay needs ln 2 * 10^4 = 6932 completions
\* at 1 ms spacing; the truncating code loses at least one unit per such completion.
FailRunAfter(c, acc, t) == IF acc THEN 0 ELSE IF Td(c, t) >= 1 THEN Min2(failrun[c] + 1, FailB) ELSE failrun[c]
FailFails(c, acc, t, s2) == IF ~acc /\ FailRunAfter(c, acc, t) >= FailB /\ s2 > Throttle THEN {"fail-bound"} ELSE {}

\* two ready connections: when picks follow each other within the force-pick period no connection
\* is left unpicked for longer than that period plus the gap
StarveOK(c, t) ==
  (Cardinality(ready) = 2 /\ prevPick >= 0 /\ t - prevPick <= ForcePick) =>
      \A d \in ready \ {c} : lastPick[d] >= 0 /\ t - lastPick[d] <= ForcePick + (t - prevPick)

PickFails(c, t) ==
  (IF c \in ready THEN {} ELSE {"pick-not-ready"})
  \cup (IF t >= now THEN {} ELSE {"time"})
  \cup (IF c \in ready /\ ~StarveOK(c, t) THEN {"starved-2conn"} ELSE {})

\* split = FALSE: the whole completion as one step at time t >= now; split = TRUE: the update of a
\* completion that began earlier and read time t then (t may lie before `now`)
DoneFails(c, code, lat, t, s2, l2, split) ==
  IF c \notin ready THEN {"done-not-ready"}
  ELSE (IF (~split /\ infl[c] > 0) \/ (split /\ half[c] > 0) THEN {} ELSE {"inflight"})
       \cup (IF (split \/ t >= now) /\ t >= 0 /\ lat >= 0 THEN {} ELSE {"time"})
       \cup SuccFails(succ[c], s2, Acceptable(code), Td(c, t))
       \cup FailFails(c, Acceptable(code), t, s2)
       \cup LagFails(l2, IF ended[c] = 0 THEN lat ELSE Min2(lmin[c], lat), IF ended[c] = 0 THEN lat ELSE Max2(lmax[c], lat))

\* post-states as records (one definition for the actions and for trace conformance)
PickPost(c, t) ==
  [infl |-> [infl EXCEPT ![c] = @ + 1], picks |-> [picks EXCEPT ![c] = @ + 1],
   lastPick |-> [lastPick EXCEPT ![c] = t]]

BeginFails(c, t) ==
  IF c \notin ready THEN {"done-not-ready"}
  ELSE (IF infl[c] > 0 THEN {} ELSE {"inflight"}) \cup (IF t >= now THEN {} ELSE {"time"})

BeginPost(c) ==
  [infl |-> [infl EXCEPT ![c] = @ - 1], dones |-> [dones EXCEPT ![c] = @ + 1], half |-> [half EXCEPT ![c] = @ + 1]]

DonePost(c, code, lat, t, s2, l2, split) ==
  LET acc  == Acceptable(code)
      far  == Td(c, t) >= 1000
  IN
  [infl |-> IF split THEN infl ELSE [infl EXCEPT ![c] = @ - 1],
   dones |-> IF split THEN dones ELSE [dones EXCEPT ![c] = @ + 1],
   half |-> IF split THEN [half EXCEPT ![c] = @ - 1] ELSE half,
   ended |-> [ended EXCEPT ![c] = @ + 1],
   succ |-> [succ EXCEPT ![c] = s2], lag |-> [lag EXCEPT ![c] = l2],
   lmin |-> [lmin EXCEPT ![c] = IF ended[c] = 0 THEN lat ELSE Min2(@, lat)],
   lmax |-> [lmax EXCEPT ![c] = IF ended[c] = 0 THEN lat ELSE Max2(@, lat)],
   lastDone |-> [lastDone EXCEPT ![c] = t],
   badrun  |-> [badrun  EXCEPT ![c] = IF ~acc /\ far THEN Min2(@ + 1, RunLen) ELSE 0],
   goodrun |-> [goodrun EXCEPT ![c] = IF acc /\ far THEN Min2(@ + 1, RunLen) ELSE 0],
   failrun |-> [failrun EXCEPT ![c] = FailRunAfter(c, acc, t)]]

Zero == [c \in Conns |-> 0]

InitWith(r) ==
  /\ ready = r
  /\ now = 0
  /\ infl = Zero /\ picks = Zero /\ dones = Zero
  /\ succ = [c \in Conns |-> InitSuccess]
  /\ lag = Zero /\ lmin = Zero /\ lmax = Zero
  /\ lastPick = [c \in Conns |-> -1] /\ lastDone = [c \in Conns |-> -1]
  /\ prevPick = -1
  /\ badrun = Zero /\ goodrun = Zero /\ failrun = Zero /\ half = Zero /\ ended = Zero
  /\ out = [op |-> "init"]

Init == InitWith(MCReady)

Pick(c, t) ==
  /\ PickFails(c, t) = {}
  /\ LET p == PickPost(c, t) IN
       /\ infl' = p.infl /\ picks' = p.picks /\ lastPick' = p.lastPick
  /\ now' = t /\ prevPick' = t
  /\ UNCHANGED <<ready, dones, succ, lag, lmin, lmax, lastDone, badrun, goodrun, failrun, half, ended>>
  /\ out' = [op |-> "pick", c |-> c, t |-> t]

DoneStep(c, code, lat, t, s2, l2, split) ==
  /\ DoneFails(c, code, lat, t, s2, l2, split) = {}
  /\ LET p == DonePost(c, code, lat, t, s2, l2, split) IN
       /\ infl' = p.infl /\ dones' = p.dones /\ succ' = p.succ /\ lag' = p.lag
       /\ lmin' = p.lmin /\ lmax' = p.lmax /\ lastDone' = p.lastDone
       /\ badrun' = p.badrun /\ goodrun' = p.goodrun /\ failrun' = p.failrun
       /\ half' = p.half /\ ended' = p.ended
  /\ now' = Max2(now, t)
  /\ UNCHANGED <<ready, picks, lastPick, prevPick>>
  /\ out' = [op |-> IF split THEN "dend" ELSE "done", c |-> c, code |-> code, lat |-> lat, t |-> t, succ |-> s2, lag |-> l2]

Done(c, code, lat, t, s2, l2)    == DoneStep(c, code, lat, t, s2, l2, FALSE)
DoneEnd(c, code, lat, t, s2, l2) == DoneStep(c, code, lat, t, s2, l2, TRUE)

DoneBegin(c, t) ==
  /\ BeginFails(c, t) = {}
  /\ LET p == BeginPost(c) IN infl' = p.infl /\ dones' = p.dones /\ half' = p.half
  /\ now' = t
  /\ UNCHANGED <<ready, picks, lastPick, prevPick, succ, lag, lmin, lmax, lastDone, badrun, goodrun, failrun, ended>>
  /\ out' = [op |-> "dbegin", c |-> c, t |-> t]

(* ---------------------------------------------------------------- every operation returns *)

\* "Every pick returns one of the ready connections": Pick and the completion callback are total
\* operations.  However long the picker has been idle (no pick for 30 s, a minute, five minutes,
\* with or without calls still in flight) and whatever completed in between, a pick of a picker with
\* ready connections has a connection it may return (the guards of Pick never exclude all of them:
\* PickTotal) and the completion of a call in flight has a step to take (DoneTotal).  An invoked
\* operation that does not return - observed by the recorder as a call that is still blocked when
\* every goroutine of the process is blocked, or that panics - is therefore never a step of this
\* specification: FaultFails names the clause.  `pending` is the recorder's own count of calls of
\* connection c that were picked and not yet completed.
PickTotalAt(t) == ready # {} => \E c \in ready : PickFails(c, t) = {}

FaultFails(op, kind, c, pending) ==
  IF kind \notin {"never-returns", "panics"} \/ op \notin {"pick", "done"} THEN {"unknown-fault"}
  ELSE IF op = "pick" THEN (IF kind = "panics" THEN {"pick-panics"} ELSE {"pick-never-returns"})
  ELSE IF c \notin ready THEN {"done-not-ready"}
  ELSE IF pending <= 0 THEN {"inflight"}
  ELSE IF kind = "panics" THEN {"done-panics"} ELSE {"done-never-returns"}

(* ---------------------------------------------------------------- model checking *)

\* candidate new scores: the slowest admitted move and the target (the bounds are monotone)
SuccCand(old, acc, td) ==
  LET tg == Target(acc)
      far == (Abs(old - tg) * WHi(td)) \div 1000 + 1
      slow == IF acc THEN Max2(Min2(tg - far, 1000), old) ELSE Min2(Max2(tg + far, 0), old)
  IN {slow, tg}
LagCand(old, lat) == IF old = 0 THEN {lat} ELSE {old, lat, (old + lat) \div 2}

Next ==
  \E d \in MCSteps :
    \/ \E c \in ready : Pick(c, now + d)
    \/ \E c \in ready, code \in MCCodes, lat \in MCLats :
         \E s2 \in SuccCand(succ[c], Acceptable(code), Td(c, now + d)), l2 \in LagCand(lag[c], lat) :
            Done(c, code, lat, now + d, s2, l2)
    \/ MCSplit /\ \E c \in ready : DoneBegin(c, now + d)
    \/ MCSplit /\ \E c \in ready, code \in MCCodes, lat \in MCLats, t \in {now, Max2(0, now - d), Max2(0, now - 2 * d)} :
         \E s2 \in SuccCand(succ[c], Acceptable(code), Td(c, t)), l2 \in LagCand(lag[c], lat) :
            DoneEnd(c, code, lat, t, s2, l2)

Spec == Init /\ [][Next]_vars

(* ---------------------------------------------------------------- the property *)

TypeOK ==
  /\ ready \subseteq Conns /\ now \in Nat
  /\ \A c \in Conns : infl[c] \in Nat /\ picks[c] \in Nat /\ dones[c] \in Nat /\ lag[c] \in Nat

InflEq    == \A c \in Conns : infl[c] = picks[c] - dones[c] /\ infl[c] >= 0 /\ half[c] = dones[c] - ended[c] /\ half[c] >= 0
SuccRange == \A c \in Conns : succ[c] \in 0..1000
LagRange  == \A c \in Conns : IF ended[c] = 0 THEN lag[c] = 0 ELSE lag[c] >= lmin[c] - 1 /\ lag[c] <= lmax[c] + 1
OnlyReady == \A c \in Conns \ ready : picks[c] = 0 /\ dones[c] = 0

\* a backend whose calls all fail becomes unhealthy after a bounded number of completions (spaced
\* at least a second apart, as under sustained traffic with the force-pick rule), and recovers
UnhealthyBound == \A c \in Conns : badrun[c] >= RunLen => succ[c] <= Throttle
Recover        == \A c \in Conns : goodrun[c] >= RunLen => succ[c] > Throttle
\* ... and after FailB failing completions however closely spaced (>= 1 ms)
FailBound      == \A c \in Conns : failrun[c] >= FailB => succ[c] <= Throttle

NoStarve2 == [][out'.op = "pick" => StarveOK(out'.c, out'.t)]_vars

\* totality (see above), for every time advance the model offers - idle periods included
PickTotal == \A d \in MCSteps : PickTotalAt(now + d)
DoneTotal == \A c \in ready : infl[c] > 0 =>
               \A d \in MCSteps, code \in MCCodes, lat \in MCLats :
                 \E s2 \in SuccCand(succ[c], Acceptable(code), Td(c, now + d)), l2 \in LagCand(lag[c], lat) :
                    DoneFails(c, code, lat, now + d, s2, l2, FALSE) = {}

=============================================================================
