----------------------------- MODULE MRContract -----------------------------
(***************************************************************************)
(* Property C07 - what the statement promises about one call of            *)
(* mr.MapReduce / MapReduceVoid / MapReduceChan / ForEach / Finish /       *)
(* FinishVoid (lib/mr/mapreduce.go), written as a RELATION between a       *)
(* scenario (what the user-supplied functions do) and the SET of results   *)
(* the caller may observe.  No mechanism here (no channels): that is       *)
(* MRPipeline.tla, which is model-checked against this contract.           *)
(*                                                                         *)
(* scenario  [api, n, workers, mb, rstop, rw, rend, genk, ctx]             *)
(*   n        number of items the generator wants to send                  *)
(*   workers  WithWorkers(workers)                                         *)
(*   mb[i]    what the mapper does with item i:                            *)
(*              "w0" "w1" "w2"   write 0/1/2 values (i*10+1, i*10+2)       *)
(*              "cancelE"        cancel(error E<i>)                         *)
(*              "cancelNil"      cancel(nil)                                *)
(*              "panic"          panic("P<i>")                              *)
(*              "latepanic"      panic("P<i>") - but only after the call    *)
(*                               has returned to the caller                *)
(*   rstop    -1: the reducer consumes the pipe until it is closed,        *)
(*            j >= 0: it stops reading after j values (or when closed)     *)
(*   rw       number of writes the reducer then does (values R1, R2)       *)
(*   rend     then: "ret" | "panic" (PRED) | "latepanic" | "cancel" (ER)   *)
(*   genk     -1: generator sends n items and returns; k>=0: it panics     *)
(*            (PGEN) after having sent k items                             *)
(*   ctx      "bg" | "before" (done before the call) | "during" (becomes   *)
(*            done at an arbitrary moment)                                 *)
(*                                                                         *)
(* Outcomes(sc) is deliberately a set: where causes race, every result     *)
(* that one of the racing causes allows is allowed (never stronger than    *)
(* the statement).  The only ordering knowledge used is causal, not        *)
(* mechanical: a reducer that reads the pipe until it is closed writes     *)
(* after every mapper has finished, so a cancel / panic in a mapper or the *)
(* generator precedes its write; a reducer that stops early may write      *)
(* before them; "no output" is known only when the whole pipeline is done. *)
(***************************************************************************)
EXTENDS Integers, Sequences, FiniteSets, TLC

CONSTANT Fams   \* set of scenario families; each a record
                \*   [Apis, NSet, WSet, MBSet, RStopSet, RWSet, REndSet, GenKSet, CtxSet : sets,
                \*    Sparse : BOOLEAN, Base, Pos : sets]
                \* Sparse = FALSE: every function 1..n -> MBSet; TRUE: a Base behaviour everywhere except
                \* at <= 2 special positions (from Pos) that take a behaviour from MBSet \cup Base

AllApis == {"MapReduce", "MapReduceVoid", "MapReduceChan", "ForEach", "Finish", "FinishVoid"}
IsFE(s) == s.api \in {"ForEach", "FinishVoid"}

Ret(v) == [kind |-> "ret", val |-> v]
Err(v) == [kind |-> "err", val |-> v]
Pan(v) == [kind |-> "panic", val |-> v]

CancelIdx(s) == {i \in 1..s.n : s.mb[i] \in {"cancelE", "cancelNil"}}
PanicIdx(s)  == {i \in 1..s.n : s.mb[i] = "panic"}
LateIdx(s)   == {i \in 1..s.n : s.mb[i] = "latepanic"}
GenPanics(s) == s.genk >= 0
ErrOf(s, i)  == IF s.mb[i] = "cancelE" THEN "E" \o ToString(i) ELSE "CANCELNIL"
PanOf(i)     == "P" \o ToString(i)

\* ------------------------------------------------------------------ outcomes
\* causes that happen before the pipeline can complete
SyncCause(s) == CancelIdx(s) # {} \/ PanicIdx(s) # {} \/ GenPanics(s)
\* ... before a write of the reducer can be the result
ForcedBeforeWrite(s) == s.ctx = "before" \/ (s.rstop = -1 /\ SyncCause(s))
\* ... before "the reducer wrote nothing" can be the result
ForcedBeforeEnd(s) == s.ctx = "before" \/ SyncCause(s) \/ s.rend \in {"panic", "cancel"}
\* a cancellation that may fall between the two writes of a reducer that writes twice
Intervening(s) == ~ForcedBeforeWrite(s) /\ (s.ctx = "during" \/ CancelIdx(s) # {})

CauseOutcomes(s) ==
     {Err(ErrOf(s, i)) : i \in CancelIdx(s)}
  \cup {Pan(PanOf(i)) : i \in PanicIdx(s)}
  \cup (IF s.rend = "cancel" THEN {Err("ER")} ELSE {})
  \cup (IF s.rend = "panic" THEN {Pan("PRED")} ELSE {})
  \cup (IF GenPanics(s) THEN {Pan("PGEN")} ELSE {})
  \cup (IF s.ctx # "bg" THEN {Err("DEADLINE")} ELSE {})

NormalOutcomes(s) ==
  CASE s.rw = 0 -> IF ForcedBeforeEnd(s) THEN {} ELSE {Err("NOOUTPUT")}
    [] s.rw = 1 -> IF ForcedBeforeWrite(s) THEN {} ELSE {Ret("R1")}
    [] OTHER    -> IF ForcedBeforeWrite(s) THEN {}
                   ELSE {Pan("FOREIGN")} \cup (IF Intervening(s) THEN {Ret("R1")} ELSE {})

\* MapReduceVoid / Finish turn "no output" into nil; ForEach / FinishVoid return nothing
MapOut(api, o) == IF api \notin {"MapReduce", "MapReduceChan"} /\ o = Err("NOOUTPUT") THEN Ret("NIL") ELSE o

Outcomes(s) == {MapOut(s.api, o) : o \in CauseOutcomes(s) \cup NormalOutcomes(s)}

\* "without cancellation": nothing abnormal at all in the scenario
NoCause(s) == /\ CancelIdx(s) = {} /\ PanicIdx(s) = {} /\ LateIdx(s) = {} /\ ~GenPanics(s)
              /\ s.ctx = "bg" /\ s.rend = "ret" /\ s.rw <= 1
MustMapAll(s) == NoCause(s)                       \* every item mapped exactly once
MustDeliverAll(s) == NoCause(s) /\ s.rstop = -1 /\ ~IsFE(s)   \* every mapper write reaches the reducer exactly once
Written(s) == UNION {{i * 10 + k : k \in 1..(CASE s.mb[i] = "w1" -> 1 [] s.mb[i] = "w2" -> 2 [] OTHER -> 0)} : i \in 1..s.n}

\* ------------------------------------------------------------------ scenario space
\* which scenarios make sense for which entry point
Applicable(s) ==
  /\ s.genk <= s.n
  /\ s.rstop <= 2 * s.n
  /\ CASE s.api = "MapReduce" -> TRUE
       [] s.api = "MapReduceChan" -> s.genk = -1
       [] s.api = "MapReduceVoid" -> s.rw = 0
       [] s.api = "Finish" -> /\ s.workers = (IF s.n = 0 THEN 1 ELSE s.n)
                              /\ \A i \in 1..s.n : s.mb[i] \in {"w0", "cancelE", "panic", "latepanic"}
                              /\ s.rstop = 0 /\ s.rw = 0 /\ s.rend = "ret" /\ s.genk = -1 /\ s.ctx = "bg"
       [] s.api = "ForEach" -> /\ \A i \in 1..s.n : s.mb[i] \in {"w0", "panic", "latepanic"}
                               /\ s.rstop = -1 /\ s.rw = 0 /\ s.rend = "ret" /\ s.ctx = "bg"
       [] s.api = "FinishVoid" -> /\ s.workers = (IF s.n = 0 THEN 1 ELSE s.n)
                                  /\ \A i \in 1..s.n : s.mb[i] \in {"w0", "panic", "latepanic"}
                                  /\ s.rstop = -1 /\ s.rw = 0 /\ s.rend = "ret" /\ s.ctx = "bg" /\ s.genk = -1

\* "late" behaviours wait for the call to return, so the scenario must contain a cause that makes
\* the call return while they wait (otherwise the scenario, not the code, is a deadlock):
LateBefore(s, j) == Cardinality({i \in 1..(j - 1) : s.mb[i] = "latepanic"})
HasLate(s) == LateIdx(s) # {} \/ s.rend = "latepanic"
ReachableCancel(s) == \E j \in CancelIdx(s) : LateBefore(s, j) < s.workers
WellFormed(s) ==
  HasLate(s) =>
    IF IsFE(s)
      THEN \/ \E j \in PanicIdx(s) : LateBefore(s, j) < s.workers
           \/ GenPanics(s) /\ (s.genk = 0 \/ LateBefore(s, s.genk) < s.workers)
      ELSE /\ PanicIdx(s) = {} /\ ~GenPanics(s) /\ s.rend # "panic"
           /\ s.rend = "latepanic" => (s.rw = 0 /\ (s.rstop = -1 \/ s.ctx # "bg"))   \* a waiting reducer that has stopped
                                    \* reading lets the mappers block on the full pipe: only the context ends that
           /\ IF LateIdx(s) # {} /\ s.rw >= 1 /\ s.rstop # -1
                THEN s.ctx = "bg" /\ ReachableCancel(s)
                ELSE s.ctx # "bg" \/ ReachableCancel(s)

\* Ordering knowledge (directed scenarios): once a cancel / the context is known to have been RECORDED by the call
\* before the reducer begins its write, that write is no longer a legitimate result ("cancel(err) makes the call
\* return that error"): only the outcomes of the causes remain.
OrderedOutcomes(s) == {MapOut(s.api, o) : o \in CauseOutcomes(s)}
\* the directed scenarios: two items, the generator is held after the first one, the reducer does not read the pipe and
\* writes once - but only after the driver has observed the cancel (of the mapper of item 1) / the context's
\* cancellation (handled by the caller) to be recorded
Directed(s, o) ==
  \/ /\ o \in {"cancel-before-write", "ctx-before-write"}
     /\ s.api \in {"MapReduce", "MapReduceChan"} /\ s.n = 2 /\ s.workers \in 1..2
     /\ s.rstop = 0 /\ s.rw = 1 /\ s.rend = "ret" /\ s.genk = -1
     /\ \/ o = "cancel-before-write" /\ s.ctx = "bg" /\ s.mb[1] \in {"cancelE", "cancelNil"} /\ s.mb[2] \in {"w0", "w1"}
        \/ o = "ctx-before-write" /\ s.ctx = "during" /\ s.mb[1] \in {"w0", "w1"} /\ s.mb[2] \in {"w0", "w1"}
  \* "workers-held": every entry point that takes WithWorkers, more items than workers (and fewer workers than the
  \* default 16); every mapper waits inside the user function until the driver has seen the whole call at rest, so the
  \* number of mappers inside at that moment is exact, not sampled.  Nothing abnormal: Outcomes(s) applies unchanged.
  \/ /\ o = "workers-held"
     /\ s.api \in {"MapReduce", "MapReduceChan", "MapReduceVoid", "ForEach"} /\ s.n \in 3..4 /\ s.workers \in 1..2
     /\ \E b \in {"w0", "w1"} : \A i \in 1..s.n : s.mb[i] = b
     /\ s.rstop = -1 /\ s.rw = (IF s.api \in {"MapReduce", "MapReduceChan"} THEN 1 ELSE 0)
     /\ s.rend = "ret" /\ s.genk = -1 /\ s.ctx = "bg" /\ Applicable(s)

MBs(f, n) ==
  IF ~f.Sparse THEN [1..n -> f.MBSet]
  ELSE {[i \in 1..n |-> IF i = p THEN b ELSE IF i = q THEN c ELSE base] :
          base \in f.Base, p \in f.Pos \cap 1..n, q \in f.Pos \cap 1..n, b \in f.MBSet \cup f.Base, c \in f.MBSet \cup f.Base}
       \cup (IF n = 0 THEN {<<>>} ELSE {})

\* the scenarios selected by the families, as an initial-state predicate (TLC enumerates this form in
\* milliseconds; a materialised set {s \in Raw : ...} is evaluated eagerly and is 30x slower)
IsScenarioIn(F, x) ==
  \E f \in F :
    \E a \in f.Apis, n \in f.NSet, w \in f.WSet, rs \in f.RStopSet, rw \in f.RWSet, re \in f.REndSet, g \in f.GenKSet, c \in f.CtxSet :
      \E m \in MBs(f, n) :
        /\ x = [api |-> a, n |-> n, workers |-> w, mb |-> m, rstop |-> rs, rw |-> rw, rend |-> re, genk |-> g, ctx |-> c]
        /\ Applicable(x) /\ WellFormed(x)
IsScenario(x) == IsScenarioIn(Fams, x)

\* The written VALUES are not part of a scenario: the contract does not depend on them.  "R1" stands for "the value
\* of the reducer's first write", whatever it is - in particular the untyped nil, a typed nil pointer or a zero value
\* (0, "", false): one write of nil is one write (Return(nil) with a nil error, not ErrReduceNoOutput), and a nil
\* written by a mapper reaches the reducer exactly once like any other value.  The generator adds the value kind as
\* a dimension of the cases (MRContractGen!Vals); the driver picks the concrete Go values.
ValueKinds == {"ord", "nil", "typednil", "zero-int", "zero-str", "false"}

MaxN == CHOOSE m \in UNION {f.NSet : f \in Fams} : \A k \in UNION {f.NSet : f \in Fams} : k <= m

\* sanity theorems of the relation, evaluated on every enumerated scenario
Sane(s) == /\ Outcomes(s) # {}
           /\ NoCause(s) => Cardinality(Outcomes(s)) = 1
           /\ (s.ctx = "before" /\ ~SyncCause(s) /\ s.rend \in {"ret", "latepanic"}) => Outcomes(s) = {Err("DEADLINE")}
=============================================================================
