----------------------------- MODULE AuthBothGen -----------------------------
(* Case generator for AuthBoth.tla (property C04): one request to a route   *)
(* that carries the JWT gate and the strict signature gate.                 *)
EXTENDS AuthBoth, Json
Emit == picked => PrintT(ToJson(out))
=============================================================================
