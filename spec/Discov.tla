------------------------------- MODULE Discov -------------------------------
(***************************************************************************)
(* Service discovery view (property C15; lib/discov, lib/discov/internal). *)
(*                                                                         *)
(* A model etcd holds a set of keys under one watched prefix; every key    *)
(* carries the fixed value ValOf[k] during each of its lives (publishers   *)
(* produce one value per key; two keys may share a value).  Subscribers    *)
(* attach to the prefix; the statement speaks about what a subscriber's    *)
(* Values() shows once everything that was delivered has been processed.   *)
(*                                                                         *)
(* The state is abstract: the model etcd, whether the watch is up, which   *)
(* changes were missed while it was down, and what has been *delivered*    *)
(* (`view`: the key set as of the last delivered revision).  Nothing of    *)
(* the mechanism (cluster.values base of the snapshot diff, the container  *)
(* maps, the number of watch goroutines) appears here; that is             *)
(* DiscovImpl.tla.                                                         *)
(*                                                                         *)
(* Non-exclusive subscriber: Values() = {ValOf[k] : k \in view}.           *)
(* Exclusive subscriber: a value is retained only under the most recent    *)
(* key that published it.  `owns[s]` is the *set* of owner assignments     *)
(* (value -> key | None) the statement admits: events delivered by the     *)
(* watch are ordered, so they update every admitted assignment             *)
(* deterministically; a reload snapshot (or the replay to a late joiner)   *)
(* carries no order among the keys it adds, so every order is admitted     *)
(* (set of outcomes, BUILDING.md rule 2).                                  *)
(*                                                                         *)
(* An element of Keys is one *life* of an etcd key: IdOf[k] is the key's   *)
(* name in etcd (the publisher's id), ValOf[k] the value it carries during *)
(* that life.  Two lives may have the same id and different values: a      *)
(* publisher that expires and registers again under its fixed id with a    *)
(* new address.  At most one life per id is present at a time, and a life  *)
(* begins only when no other life of its id is present - an in-place       *)
(* overwrite of a live key with another value is outside the statement     *)
(* ("each key carries one value during its life").  When the delete and    *)
(* the new put both happen while the watch is down, the reload snapshot    *)
(* shows a key the cluster already knew, with another value; what Values() *)
(* must show afterwards is the same as always: the values of the lives     *)
(* present.                                                                *)
(***************************************************************************)
EXTENDS Integers, Sequences, FiniteSets, TLC, SequencesExt

CONSTANTS Keys,      \* etcd keys under the watched prefix (strings)
          Vals,      \* values (strings)
          ValOf,     \* [Keys -> Vals]
          IdOf,      \* [Keys -> STRING]: the name of the key in etcd (lives of one key share it)
          Subs,      \* subscribers (strings)
          Excl,      \* subset of Subs created with Exclusive()
          MaxMissed, \* bound on changes missed during one outage
          MidLen     \* bound on changes that hit etcd between a reload's snapshot and its new watch

None == "none"

VARIABLES etcd,      \* keys currently present
          up,        \* the watch is delivering
          backlog,   \* changes since the watch went down, in order: [op, k]
          fresh,     \* keys (re-)published during the current outage and still present
          view,      \* key set as of the last delivered revision
          attached,  \* subscribers created so far
          owns,      \* [Subs -> SUBSET [Vals -> Keys \cup {None}]], meaningful for attached exclusive ones
          out        \* observation of the last step (operation, arguments, prediction)

vars == <<etcd, up, backlog, fresh, view, attached, owns, out>>
core == <<etcd, up, backlog, fresh, view, attached, owns>>   \* VIEW for model checking

Owners == [Vals -> Keys \cup {None}]
NoOwner == [v \in Vals |-> None]
Ev(op, k) == [op |-> op, k |-> k]

ValsOfKeys(ks) == {ValOf[k] : k \in ks}
ValsOfOwner(o) == {v \in Vals : o[v] # None}

\* what Values() of subscriber s may show (a set of value sets)
AllowedIn(s, vw, ow) == IF s \in Excl THEN {ValsOfOwner(o) : o \in ow[s]} ELSE {ValsOfKeys(vw)}
Allowed(s) == AllowedIn(s, view, owns)

(* ---------------------------------------------------------------- pure step functions *)

\* no other life of k's etcd key is among ks
IdFree(ks, k) == \A k2 \in ks : IdOf[k2] = IdOf[k] => k2 = k
OneLifePerId(ks) == \A k \in ks : IdFree(ks, k)

ViewApply(vw, e) == IF e.op = "put" THEN vw \cup {e.k} ELSE vw \ {e.k}

\* an ordered event seen by an exclusive subscriber
OwnApply(o, e) ==
  LET v == ValOf[e.k] IN
  IF e.op = "put" THEN [o EXCEPT ![v] = e.k]
  ELSE IF o[v] = e.k THEN [o EXCEPT ![v] = None] ELSE o

OwnApplySeq(o, es) == FoldLeft(LAMBDA acc, e : OwnApply(acc, e), o, es)
ViewApplySeq(vw, es) == FoldLeft(LAMBDA acc, e : ViewApply(acc, e), vw, es)

\* a snapshot `snap` replaces view `vw`; `fr` = keys (re-)published since vw and present in snap.
\* Keys of snap \ vw are newer publishers than anything known before; among them (and the
\* re-published ones) no order is known.  Without a new key the old owner survives if it is
\* still present, or a re-published key may be taken for the most recent one.
OwnReload(o, vw, snap, fr) ==
  LET cand(v) == {k \in fr \cap snap : ValOf[k] = v}
      adds(v) == cand(v) \ vw
      keep(v) == IF o[v] # None /\ o[v] \in snap THEN o[v] ELSE None
      choice(v) == IF adds(v) # {} THEN cand(v) ELSE cand(v) \cup {keep(v)}
  IN {f \in Owners : \A v \in Vals : f[v] \in choice(v)}

\* replay of a key set in no particular order to a fresh exclusive container
OwnFresh(ks) ==
  LET pubs(v) == {k \in ks : ValOf[k] = v}
  IN {f \in Owners : \A v \in Vals : IF pubs(v) = {} THEN f[v] = None ELSE f[v] \in pubs(v)}

OwnsMap(F(_)) == [s \in Subs |-> IF s \in attached \cap Excl THEN UNION {F(o) : o \in owns[s]} ELSE owns[s]]
OwnsMap1(G(_)) == OwnsMap(LAMBDA o : {G(o)})

\* prediction attached to a step: allowed Values() per attached subscriber and whether the
\* listeners of a subscriber must have run (its value list certainly changed)
Predict(att2, vw2, ow2) ==
  [exp  |-> [s \in att2 |-> AllowedIn(s, vw2, ow2)],
   must |-> [s \in att2 |-> s \in attached /\ AllowedIn(s, vw2, ow2) \cap Allowed(s) = {}]]

TypeOK ==
  /\ etcd \subseteq Keys /\ view \subseteq Keys /\ fresh \subseteq Keys
  /\ up \in BOOLEAN
  /\ attached \subseteq Subs
  /\ backlog \in Seq([op : {"put", "del"}, k : Keys]) /\ Len(backlog) <= MaxMissed
  /\ \A s \in Subs : owns[s] \subseteq Owners
  /\ OneLifePerId(etcd) /\ OneLifePerId(view)

Init ==
  /\ etcd \in {ks \in SUBSET Keys : OneLifePerId(ks)}
  /\ up = TRUE
  /\ backlog = <<>>
  /\ fresh = {}
  /\ view = etcd
  /\ attached = {}
  /\ owns = [s \in Subs |-> {}]
  /\ out = [op |-> "init", keys |-> etcd]

(* ---------------------------------------------------------------- actions *)

\* a change of the model etcd: delivered by the watch when it is up, otherwise missed
Change(e) ==
  /\ etcd' = ViewApply(etcd, e)
  /\ UNCHANGED attached
  /\ IF up
       THEN /\ view' = ViewApply(view, e)
            /\ owns' = OwnsMap1(LAMBDA o : OwnApply(o, e))
            /\ UNCHANGED <<up, backlog, fresh>>
            /\ out' = [op |-> e.op, k |-> e.k] @@ Predict(attached, view', owns')
       ELSE /\ Len(backlog) < MaxMissed
            /\ backlog' = Append(backlog, e)
            /\ fresh' = IF e.op = "put" THEN fresh \cup {e.k} ELSE fresh \ {e.k}
            /\ UNCHANGED <<up, view, owns>>
            /\ out' = [op |-> e.op, k |-> e.k] @@ Predict(attached, view, owns)

Put(k)    == IdFree(etcd, k) /\ Change(Ev("put", k))  \* also a re-publication of a present key (same life)
Delete(k) == k \in etcd /\ Change(Ev("del", k))

Disconnect ==
  /\ up /\ attached # {}
  /\ up' = FALSE
  /\ UNCHANGED <<etcd, backlog, fresh, view, attached, owns>>
  /\ out' = [op |-> "disconnect"] @@ Predict(attached, view, owns)

\* the old watch resumes by itself and delivers what was missed, in order (no reload)
Resume ==
  /\ ~up
  /\ up' = TRUE
  /\ view' = ViewApplySeq(view, backlog)
  /\ owns' = OwnsMap1(LAMBDA o : OwnApplySeq(o, backlog))
  /\ backlog' = <<>> /\ fresh' = {}
  /\ UNCHANGED <<etcd, attached>>
  /\ out' = [op |-> "resume"] @@ Predict(attached, view', owns')

\* reload: snapshot of the model etcd, then a fresh watch from the snapshot revision.  `mid`
\* is a sequence of changes that hit etcd after the snapshot was taken and before the new watch
\* is registered; the watch (from revision + 1) delivers them in order.
Reload(mid) ==
  /\ attached # {}
  /\ \A i \in 1..Len(mid) : LET before == ViewApplySeq(etcd, SubSeq(mid, 1, i - 1))
                            IN IF mid[i].op = "del" THEN mid[i].k \in before ELSE IdFree(before, mid[i].k)
  /\ up' = TRUE
  /\ etcd' = ViewApplySeq(etcd, mid)
  /\ view' = etcd'
  /\ owns' = OwnsMap(LAMBDA o : {OwnApplySeq(f, mid) : f \in OwnReload(o, view, etcd, fresh)})
  /\ backlog' = <<>> /\ fresh' = {}
  /\ UNCHANGED attached
  /\ out' = [op |-> "reload", mid |-> mid,
              \* the snapshot shows a key that was known before, with another value (a new life)
              reval |-> (\E k \in etcd \ view, k2 \in view \ etcd : IdOf[k] = IdOf[k2])]
             @@ Predict(attached, view', owns')

\* NewSubscriber while the watch is up: the first one creates the cluster (initial load), a
\* later one is replayed the current set and must show it immediately
Attach(s) ==
  /\ s \notin attached /\ up
  /\ attached' = attached \cup {s}
  /\ view' = etcd
  /\ owns' = [owns EXCEPT ![s] = IF s \in Excl THEN OwnFresh(etcd) ELSE {}]
  /\ UNCHANGED <<etcd, up, backlog, fresh>>
  /\ out' = [op |-> "attach", s |-> s, excl |-> (s \in Excl)] @@ Predict(attached', view', owns')

\* NewSubscriber while the registry cannot be reached.  Only possible while no connection to it
\* exists, i.e. before the first successful NewSubscriber (the connection, once made, is shared
\* and kept).  The call returns an error and no subscriber comes to exist; nothing the statement
\* talks about changes, and the caller may try again (the same subscriber or another one).
AttachFail(s) ==
  /\ attached = {} /\ up
  /\ UNCHANGED core
  /\ out' = [op |-> "attachfail", s |-> s, excl |-> (s \in Excl)]

Mids == UNION {[1..m -> {Ev(op, k) : op \in {"put", "del"}, k \in Keys}] : m \in 0..MidLen}

Next ==
  \/ \E k \in Keys : Put(k) \/ Delete(k)
  \/ Disconnect \/ Resume
  \/ \E m \in Mids : Reload(m)
  \/ \E s \in Subs : Attach(s) \/ AttachFail(s)

Spec == Init /\ [][Next]_vars

(* ---------------------------------------------------------------- the property *)

\* once everything delivered has been processed (watch up, nothing missed) the value list is the
\* set of distinct values of the keys currently present
Converged ==
  (up /\ attached # {}) =>
     /\ view = etcd /\ backlog = <<>>
     /\ \A s \in attached \ Excl : Allowed(s) = {ValsOfKeys(etcd)}

\* exclusive mode: a value is retained only under a present key that published it; at
\* quiescence a value none of whose keys is present is not shown; some outcome is admitted
ExclSound ==
  \A s \in attached \cap Excl :
     /\ owns[s] # {}
     /\ \A o \in owns[s], v \in Vals : o[v] # None => (ValOf[o[v]] = v /\ o[v] \in view)
     /\ \A vs \in Allowed(s) : vs \subseteq ValsOfKeys(view)

\* change listeners run on every update: a step that certainly changes the value list of an
\* attached subscriber is predicted to have run its listeners
Listeners == [][\A s \in attached : (Allowed(s) \cap AllowedIn(s, view', owns') = {}) => out'.must[s]]_vars

=============================================================================
