----------------------------- MODULE BreakerGen -----------------------------
(***************************************************************************)
(* Behaviour generator for Breaker.tla (spec -> code replay, property C01).*)
(*                                                                         *)
(* A behaviour is a sequence of at most MaxSteps macro-steps               *)
(*    burst   : n calls on one name at a frozen clock, all with the same   *)
(*              effect (n successes or n failures) and the same coin; the  *)
(*              kinds of the individual calls rotate through the kind      *)
(*              sequence of that effect so that every API variant meets    *)
(*              every breaker condition;  `par` bursts are issued from     *)
(*              several goroutines at once (coin = never reject, so that   *)
(*              the calls commute and the prediction is schedule-free);    *)
(*    adv     : the clock advances d ticks;                                *)
(*    disable : NoBreakerFor(name);                                        *)
(* closed by a `finish` step that, for every live breaker, issues failures *)
(* with the coin at "never reject" until the coin is consulted: the        *)
(* probability it is asked about reveals (successes, total) exactly, so an *)
(* accounting error that stayed below the threshold is still observed.     *)
(* SuccSeq / FailSeq select the family: CoreKinds* (all variants),         *)
(* PredKinds* (every acceptable-predicate), PromiseKinds* (Allow + Accept  *)
(* or Reject with every class of reason; with Rots = 0..3 every reason     *)
(* opens a burst).  Names say how the instance is made ("p.." is           *)
(* New(WithName), "q.." is New(), anything else lives in the registry).    *)
(* Every call carries the specification's prediction (CallOn of            *)
(* Breaker.tla in closed form); the Go driver only compares.               *)
(***************************************************************************)
EXTENDS Breaker, Json, SequencesExt

CONSTANTS MaxSteps,  \* macro-steps before the finish step
          Ns,        \* burst lengths
          Ds,        \* advances (ticks)
          Rots,      \* rotation offsets into the kind sequences
          ParNs,     \* burst lengths offered as parallel bursts ({} = none)
          SuccSeq,   \* kinds used for success bursts  (sequence)
          FailSeq,   \* kinds used for failure bursts and for the final probe (sequence)
          Coins,     \* coins offered to bursts (subset of BOOLEAN)
          AdvAdv,    \* BOOLEAN: may an advance follow an advance
          WithDisable, \* BOOLEAN: offer NoBreakerFor
          IntegKinds \* {} = core mode; otherwise the integration table mode (see IBurst1/IBurst2)

VARIABLES hist, fin

gvars == <<vars, hist, fin>>

\* decided once (TLC evaluates constant definitions at start-up), not per state
IntegMode == IntegKinds # {}

KindAt(seq, rot, i) == seq[((rot + i - 1) % Len(seq)) + 1]

\* ------------------------------------------------------------------ a burst in closed form
\* (s, t) = successes / total of the window before the burst, google = a real breaker (not nop).
\* All operators below take evaluated integers (bound by \E / set comprehension at the call
\* site): TLC evaluates LET definitions and operator arguments by name, so folding over the
\* window inside them would be repeated for every use.

\* is the i-th call of the burst consulted (window rejectable) when calls 1..i-1 were admitted
RejAt(google, s, t, e, i) == google /\ Rejectable(s + e * (i - 1), t + (i - 1))

\* number of admitted calls: all of them unless the coin rejects, in which case everything from
\* the first rejectable call on is rejected (a rejected call records nothing, so the window stays
\* rejectable for the rest of the burst)
Admitted(google, s, t, e, n, coin) ==
  IF ~coin THEN n
  ELSE Cardinality({i \in 1..n : \A j \in 1..i : ~RejAt(google, s, t, e, j)})

\* one call as a tuple  <<api, oc, n, rej, con, num, den, req, fb, ret>> :
\*   rej  the call is rejected            con  the coin is consulted (window rejectable)
\*   num/den  the probability handed to the coin   req  the protected function / promise callback runs
\*   fb   the fallback runs (with ErrServiceUnavailable)   ret  what the caller gets back
CallTuple(k, rejected, rj, s, t) ==
  <<k.api, k.oc, k.n, rejected, rj,
    IF rj THEN Num(s, t) ELSE 0, IF rj THEN Den(t) ELSE 0,
    IF rejected THEN 0 ELSE 1,
    IF rejected /\ HasFallback(k) THEN 1 ELSE 0,
    IF rejected THEN RetRejected(k) ELSE RetAdmitted(k)>>

\* m = Admitted(...)
BurstCalls(google, s, t, m, seq, rot, e, n, par) ==
  [i \in 1..n |->
     LET k == KindAt(seq, rot, i)
         j == IF i <= m THEN i ELSE m + 1            \* rejected calls all see the frozen window
     IN IF par
        THEN CallTuple(k, FALSE, FALSE, 0, 0)        \* schedule-dependent consults are not predicted
        ELSE CallTuple(k, i > m, RejAt(google, s, t, e, j), s + e * (j - 1), t + (j - 1))]

BurstRec(nm, google, s, t, m, seq, rot, e, n, coin, par) ==
  [op |-> "burst", name |-> nm, e |-> e, n |-> n, coin |-> coin, par |-> par,
   calls |-> BurstCalls(google, s, t, m, seq, rot, e, n, par)]

GInit == Init /\ hist = <<>> /\ fin = FALSE

LastOp == IF hist = <<>> THEN "init" ELSE hist[Len(hist)].op

BurstWith(nm, seq, e, n, coin, rot, par) ==
  LET b == Touch(st[nm])
      g == b.mode = "google"
  IN /\ ~fin /\ Len(hist) < MaxSteps
     /\ Len(seq) > 0
     /\ (par => ~coin /\ n >= 2)
     /\ \E s \in {Succ(b.win)}, t \in {Total(b.win)} :
          \E m \in {Admitted(g, s, t, e, n, coin)} :
             /\ st' = [st EXCEPT ![nm] = IF g THEN [b EXCEPT !.win = AddN(b.win, e, m)] ELSE b]
             /\ out' = BurstRec(nm, g, s, t, m, seq, rot, e, n, coin, par)
     /\ hist' = Append(hist, out')
     /\ UNCHANGED fin

\* does the coin matter in this burst (is it consulted at all)?
Consults(b, e, n) ==
  \E s \in {Succ(b.win)}, t \in {Total(b.win)} : \E i \in 1..n : RejAt(b.mode = "google", s, t, e, i)

Burst(nm, e, n, coin, rot0, par) ==
  /\ ~IntegMode
  \* a coin nobody consults is not a choice: generate it once (as the first coin offered)
  /\ (Consults(Touch(st[nm]), e, n) \/ par \/ coin = (TRUE \in Coins))
  /\ BurstWith(nm, IF e = 1 THEN SuccSeq ELSE FailSeq, e, n, coin, rot0 + 5 * Len(hist), par)

\* integration table mode: the outcome k of one built-in integration is produced n times on a
\* fresh breaker (coin: never reject), then twice more with the adversarial coin (rejected iff
\* the statement does not list k as benign), then the finish step probes with the
\* integration's canonical failure.
CanonFail(api) ==
  CASE api = "http"     -> Kd("http", "500", 500)
    [] api = "httpc"    -> Kd("httpc", "500", 500)
    [] api \in GrpcApis -> Kd(api, "Internal", 13)
    [] OTHER            -> Kd(api, "other", 0)

FirstKind == LET c == hist[1].calls[1] IN Kd(c[1], c[2], c[3])

IBurst1(nm, k, n) ==
  /\ IntegMode /\ hist = <<>>
  /\ BurstWith(nm, <<k>>, Effect(k), n, FALSE, 0, FALSE)

IBurst2(nm) ==
  /\ IntegMode /\ hist # <<>>
  /\ st[nm].mode = "google"
  /\ BurstWith(nm, <<FirstKind>>, Effect(FirstKind), 2, TRUE, 0, FALSE)

ProbeSeq == IF ~IntegMode THEN FailSeq ELSE <<CanonFail(FirstKind.api)>>

Adv(d) ==
  /\ ~fin /\ Len(hist) < MaxSteps
  /\ \E nm \in Names : st[nm].mode = "google"          \* before the first use time has no effect
  /\ (AdvAdv \/ LastOp # "adv")
  /\ st' = [nm \in Names |-> AdvanceB(st[nm], d)]
  /\ out' = [op |-> "adv", d |-> d]
  /\ hist' = Append(hist, out')
  /\ UNCHANGED fin

Dis(nm) ==
  /\ ~fin /\ Len(hist) < MaxSteps /\ WithDisable
  /\ nm \in RegNames /\ st[nm].mode # "nop"
  /\ st' = [st EXCEPT ![nm] = Nop]
  /\ out' = [op |-> "disable", name |-> nm]
  /\ hist' = Append(hist, out')
  /\ UNCHANGED fin

\* the final probe: the smallest number of failures after which the coin is consulted
ProbeLen(google, s, t) ==
  LET need == (K2 * s) \div 2 + Prot + 2 - t
  IN IF ~google THEN 3 ELSE IF need < 1 THEN 1 ELSE need

NameSeq == SetToSeq(Names)

Probe(nm, rot) ==
  CHOOSE r \in {BurstRec(nm, st[nm].mode = "google", s, t, ProbeLen(st[nm].mode = "google", s, t), ProbeSeq, rot, 0,
                         ProbeLen(st[nm].mode = "google", s, t), FALSE, FALSE)
                  : s \in {Succ(st[nm].win)}, t \in {Total(st[nm].win)}} : TRUE

Finish ==
  /\ ~fin
  /\ fin' = TRUE
  /\ LET live == SelectSeq(NameSeq, LAMBDA nm : st[nm].mode # "none")
     IN out' = [op |-> "finish", probes |-> [x \in 1..Len(live) |-> Probe(live[x], Len(hist) + x)]]
  /\ hist' = Append(hist, out')
  /\ UNCHANGED st

GNext ==
  \/ (~IntegMode /\ \E nm \in Names, e \in {0, 1}, n \in Ns, coin \in Coins, rot0 \in Rots : Burst(nm, e, n, coin, rot0, FALSE))
  \/ (~IntegMode /\ \E nm \in Names, e \in {0, 1}, n \in ParNs : Burst(nm, e, n, FALSE, 0, TRUE))
  \/ (IntegMode /\ hist = <<>> /\ \E nm \in Names, k \in IntegKinds, n \in Ns : IBurst1(nm, k, n))
  \/ \E nm \in Names : IBurst2(nm)
  \/ \E d \in Ds : Adv(d)
  \/ \E nm \in RegNames : Dis(nm)
  \/ (Len(hist) = MaxSteps /\ Finish)

GSpec == GInit /\ [][GNext]_gvars

\* one JSON line per complete behaviour (every distinct history is a distinct state)
Emit == fin => PrintT(ToJson(hist))

=============================================================================
