------------------------------ MODULE Shedder ------------------------------
(***************************************************************************)
(* Adaptive load shedder (property C09; lib/load/adaptiveshedder.go) over  *)
(* two abstract rolling windows (RollingWindow.tla semantics, current      *)
(* bucket ignored): `pass` counts the passed requests per bucket, `rt`     *)
(* sums their latencies (ms).                                              *)
(*                                                                         *)
(* Time is counted in ticks of TickUs microseconds (250 us in the replay   *)
(* configurations, so that sub-millisecond and fractional-millisecond      *)
(* latencies exist); a bucket is Q ticks, the window Size buckets, W =     *)
(* buckets per second.  Latencies are kept EXACTLY (in ticks): the         *)
(* capacity of the statement is defined by the true average latency.  An   *)
(* implementation that keeps whole-millisecond statistics may only err     *)
(* upwards (a larger capacity rejects less, which every clause allows);    *)
(* rounding a latency or an average DOWN under-estimates the capacity and  *)
(* rejects requests the statement protects.                                *)
(*                                                                         *)
(* The statement is a set of implications, and so is the specification:    *)
(*   P1  a request is rejected only if the CPU reading of that Allow is    *)
(*       over the threshold or an overload was observed (by an Allow)      *)
(*       less than one second ago;                                         *)
(*   P2  and only if the in-flight count exceeds the capacity              *)
(*       Cap = max(1, floor(maxPass * W * minRt))  (maxPass = largest      *)
(*       per-bucket pass count in the window, at least 1; minRt = smallest *)
(*       per-bucket average latency in seconds, at most 1 s) - the         *)
(*       same for the smoothed in-flight count, which is an average of     *)
(*       in-flight counts seen at completions and therefore at most        *)
(*       maxSeen (the driver compares the real smoothed value with Cap);   *)
(*   P3  flying = admitted - completed: back to 0 once every admitted      *)
(*       request has reported Pass or Fail.                                *)
(*   P4  the "smoothed number of in-flight requests" is a property of the  *)
(*       OBSERVED in-flight history, not of a variable of the code: it is  *)
(*       updated by every completion (Pass or Fail alike) towards the      *)
(*       in-flight count that completion left - strictly towards it when   *)
(*       they differ, by any positive amount, never away (the driver       *)
(*       checks this at each completion of the real shedder); a smoothing  *)
(*       at least as fast as an ideal slow moving average (factor 0.98,    *)
(*       counts up to 380) is within 1 of any level c after CalmK = 300    *)
(*       consecutive completions that all left at most c in flight.  Hence *)
(*       SmLevel + 1 bounds the smoothed value at any time, and a request  *)
(*       may not be rejected while every one of the last CalmK completions *)
(*       (all of them, if there were fewer) left no more than the capacity *)
(*       in flight (Calm).  `highs` keeps what is needed of the history:   *)
(*       the suffix maxima of the in-flight counts left by the last CalmK  *)
(*       completions, most recent first, each with its age in completions. *)
(* Admission is always allowed; a rejection is allowed only when MayDrop.  *)
(* The choice is the implementation's: Allow takes the decision as a       *)
(* parameter and requires  drop => MayDrop.                                *)
(***************************************************************************)
EXTENDS Integers, Sequences, FiniteSets, TLC

CONSTANTS Size,      \* buckets per window
          Q,         \* ticks per bucket
          TickUs,    \* microseconds per tick
          Advances,  \* time advances offered (ticks)
          MaxFly,    \* bound on outstanding requests (model checking)
          CalmK      \* completions after which the smoothed count has followed the in-flight level

VARIABLES now,       \* ticks
          passBk,    \* [0..Size-1 -> Nat]   passes per bucket, by age (0 = current)
          rtBk,      \* [0..Size-1 -> [sum, count]] latencies (ticks) per bucket, by age
          starts,    \* sequence of the start instants of the outstanding requests (oldest first)
          over,      \* [seen, at]: last instant at which an Allow observed CPU overload
          maxSeen,   \* largest in-flight count seen by a completion (after its decrement)
          highs,     \* <<[v, age]>>: suffix maxima of the counts left by the last CalmK completions
          out

vars == <<now, passBk, rtBk, starts, over, maxSeen, highs, out>>
core == <<now, passBk, rtBk, starts, over, maxSeen, highs>>

Ages == 0..(Size - 1)
Visible == 1..(Size - 1)                 \* the shedder's windows ignore the current bucket
TicksPerSec == 1000000 \div TickUs
CoolTicks == TicksPerSec                 \* one second
W == TicksPerSec \div Q                  \* buckets per second
Cur(t) == t \div Q
EmptyRt == [sum |-> 0, count |-> 0]
Max2(a, b) == IF a > b THEN a ELSE b
Min2(a, b) == IF a < b THEN a ELSE b
SetMax(S) == CHOOSE m \in S : \A x \in S : x <= m
SetMin(S) == CHOOSE m \in S : \A x \in S : m <= x

ShiftP(b, s) == [j \in Ages |-> IF j >= s THEN b[j - s] ELSE 0]
ShiftR(b, s) == [j \in Ages |-> IF j >= s THEN b[j - s] ELSE EmptyRt]

Flying == Len(starts)
MaxPass(pb) == SetMax({1} \cup {pb[j] : j \in Visible})
\* floor(m * (b.sum / b.count) / TicksPerSec) for the exact average b.sum / b.count, without
\* leaving 32-bit integers: sum = q * count + r, and floor((A + x) / D) = floor((A + floor(x)) / D)
BucketCap(m, b) ==
  LET q == b.sum \div b.count
      r == b.sum % b.count
  IN (m * q + (m * r) \div b.count) \div TicksPerSec
\* the minimum over the buckets' average latencies (and over the 1 s ceiling of minRt) commutes
\* with the monotone  floor(m * _)
Cap(pb, rb) ==
  LET m == MaxPass(pb) * W IN
  Max2(1, SetMin({m} \cup {BucketCap(m, rb[j]) : j \in {a \in Visible : rb[a].count > 0}}))

\* ---- history of the in-flight counts left by completions
\* entries of h that survive n further completions the highest of which left f in flight
Keep(h, f, n) ==
  SelectSeq([i \in 1..Len(h) |-> [v |-> h[i].v, age |-> h[i].age + n]], LAMBDA e : e.v > f /\ e.age < CalmK)
\* one completion that left f in flight
PushOne(h, f) == <<[v |-> f, age |-> 0]>> \o Keep(h, f, 1)
\* n completions in a row that left L-1, L-2, .., L-n in flight
PushRun(h, L, n) ==
  SelectSeq([i \in 1..n |-> [v |-> L - n + i - 1, age |-> i - 1]], LAMBDA e : e.age < CalmK) \o Keep(h, L - 1, n)
\* n completions in a row that each left L in flight
PushSame(h, L, n) == <<[v |-> L, age |-> 0]>> \o Keep(h, L, n)
\* every one of the last CalmK completions (all, if fewer) left at most c in flight
Calm(h, c) == \A i \in 1..Len(h) : h[i].v <= c
\* the highest count left by one of the last CalmK completions
SmLevel(h) == IF h = <<>> THEN 0 ELSE h[Len(h)].v

Recently(o, t) == o.seen /\ t - o.at < CoolTicks
Hot(cpuOver, o, t) == cpuOver \/ Recently(o, t)
MayDrop(cpuOver) ==
  /\ Hot(cpuOver, over, now)
  /\ Flying > Cap(passBk, rtBk)
  /\ maxSeen > Cap(passBk, rtBk)
  /\ ~Calm(highs, Cap(passBk, rtBk))

RemoveAt(s, i) == [j \in 1..(Len(s) - 1) |-> IF j < i THEN s[j] ELSE s[j + 1]]

TypeOK ==
  /\ now \in Nat /\ maxSeen \in Nat
  /\ passBk \in [Ages -> Nat]
  /\ starts \in Seq(Nat)

Init ==
  /\ now = 0
  /\ passBk = [j \in Ages |-> 0]
  /\ rtBk = [j \in Ages |-> EmptyRt]
  /\ starts = <<>>
  /\ over = [seen |-> FALSE, at |-> 0]
  /\ maxSeen = 0
  /\ highs = <<>>
  /\ out = [op |-> "init"]

Advance(d) ==
  /\ now' = now + d
  /\ passBk' = ShiftP(passBk, Cur(now + d) - Cur(now))
  /\ rtBk' = ShiftR(rtBk, Cur(now + d) - Cur(now))
  /\ out' = [op |-> "advance", d |-> d]
  /\ UNCHANGED <<starts, over, maxSeen, highs>>

Allow(cpuOver, drop) ==
  /\ drop => MayDrop(cpuOver)
  /\ ~drop => Flying < MaxFly
  /\ over' = IF cpuOver THEN [seen |-> TRUE, at |-> now] ELSE over
  /\ starts' = IF drop THEN starts ELSE Append(starts, now)
  /\ out' = [op |-> "allow", over |-> cpuOver, drop |-> drop, mayDrop |-> MayDrop(cpuOver),
             hot |-> Hot(cpuOver, over, now), cap |-> Cap(passBk, rtBk), flying |-> Len(starts'),
             calm |-> Calm(highs, Cap(passBk, rtBk)), smBound |-> SmLevel(highs) + 1]
  /\ UNCHANGED <<now, passBk, rtBk, maxSeen, highs>>

\* the i-th outstanding request reports Pass (latency recorded) or Fail
Complete(i, pass) ==
  /\ i \in 1..Len(starts)
  /\ starts' = RemoveAt(starts, i)
  /\ maxSeen' = Max2(maxSeen, Len(starts) - 1)
  /\ highs' = PushOne(highs, Len(starts) - 1)
  /\ IF pass
       THEN /\ passBk' = [passBk EXCEPT ![0] = @ + 1]
            /\ rtBk' = [rtBk EXCEPT ![0] = [sum |-> @.sum + (now - starts[i]), count |-> @.count + 1]]
       ELSE UNCHANGED <<passBk, rtBk>>
  /\ out' = [op |-> IF pass THEN "pass" ELSE "fail", i |-> i, rt |-> now - starts[i],
             flying |-> Len(starts) - 1, maxSeen |-> maxSeen', smBound |-> SmLevel(highs') + 1]
  /\ UNCHANGED <<now, over>>

Next ==
  \/ \E d \in Advances : Advance(d)
  \/ \E c \in BOOLEAN, dr \in BOOLEAN : Allow(c, dr)
  \/ \E i \in 1..Len(starts), p \in BOOLEAN : Complete(i, p)

Spec == Init /\ [][Next]_vars

(* ------------------------------------------------------------ the property *)

\* P1: never rejected while the CPU is below the threshold and no overload was observed
\* during the last second
P1 == [][(out'.op = "allow" /\ out'.drop) =>
            (out'.over \/ (over.seen /\ now - over.at < CoolTicks))]_vars

\* P2: rejected only when the in-flight count (and every in-flight count the smoothed value
\* could have averaged) exceeds the capacity estimated from the window
P2 == [][(out'.op = "allow" /\ out'.drop) =>
            (Len(starts) > out'.cap /\ maxSeen > out'.cap /\ out'.cap >= 1)]_vars

\* a rejected request changes nothing but the overload observation
P2b == [][(out'.op = "allow" /\ out'.drop) => <<passBk, rtBk, starts, maxSeen, highs>>' = <<passBk, rtBk, starts, maxSeen, highs>>]_vars

\* P3: in-flight count = admitted - completed (the outstanding promises), never negative
P3 == [][/\ (out'.op = "allow" => Len(starts') = Len(starts) + (IF out'.drop THEN 0 ELSE 1))
         /\ (out'.op \in {"pass", "fail"} => Len(starts') = Len(starts) - 1 /\ out'.flying = Len(starts'))
         /\ (out'.op = "advance" => starts' = starts)]_vars

\* P4: no rejection while every one of the last CalmK completions left at most the capacity in
\* flight; Pass and Fail feed the history alike
P4 == [][/\ ((out'.op = "allow" /\ out'.drop) => \E i \in 1..Len(highs) : highs[i].v > out'.cap)
         /\ (out'.op \in {"pass", "fail"} => highs'[1] = [v |-> Len(starts'), age |-> 0])]_vars
HighsShape ==
  /\ \A i \in 1..Len(highs) : highs[i].age < CalmK /\ highs[i].v <= maxSeen
  /\ \A i \in 1..(Len(highs) - 1) : highs[i].v < highs[i + 1].v /\ highs[i].age < highs[i + 1].age

\* only a Pass feeds the windows; what ages out of the window no longer counts
WindowsFedByPass ==
  [][(passBk' # passBk \/ rtBk' # rtBk) => out'.op \in {"pass", "advance"}]_vars

AgedOut == \A j \in Ages : passBk[j] = rtBk[j].count

=============================================================================
