----------------------------- MODULE DiscovGen -----------------------------
(***************************************************************************)
(* Behaviour generator for Discov.tla (spec -> code replay, property C15). *)
(*                                                                         *)
(* A behaviour starts from any initial content of the model etcd; its      *)
(* first step attaches a subscriber (nothing is observable before) - after *)
(* MinFail..MaxFail attempts that fail because the registry cannot be      *)
(* reached yet (Discov!AttachFail) - then further steps of Discov!Next     *)
(* follow up to MaxLen steps in all, with at most MaxDisc disconnections   *)
(* and MaxReload reloads.  Every step carries, for every attached          *)
(* subscriber, the set of value sets Values() may show and whether its     *)
(* listeners must have run - all computed by Discov.tla.                   *)
(***************************************************************************)
EXTENDS Discov, Json

CONSTANTS MaxLen, MaxDisc, MaxReload, MinFail, MaxFail,
          QuietUp    \* TRUE: the registry changes only during outages (plans that spend their length there)

VARIABLES hist, ndisc, nrel, nfail

gvars == <<vars, hist, ndisc, nrel, nfail>>

GInit == Init /\ hist = <<[op |-> "init", keys |-> etcd]>> /\ ndisc = 0 /\ nrel = 0 /\ nfail = 0

Step ==
  \/ /\ attached = {}
     /\ \/ nfail >= MinFail /\ (\E s \in Subs : Attach(s)) /\ UNCHANGED nfail
        \/ nfail < MaxFail /\ (\E s \in Subs : AttachFail(s)) /\ nfail' = nfail + 1
     /\ UNCHANGED <<ndisc, nrel>>
  \/ /\ attached # {}
     /\ UNCHANGED nfail
     /\ \/ (QuietUp => ~up) /\ (\E k \in Keys : Put(k) \/ Delete(k)) /\ UNCHANGED <<ndisc, nrel>>
        \/ (\E s \in Subs : Attach(s)) /\ UNCHANGED <<ndisc, nrel>>
        \/ ndisc < MaxDisc /\ Disconnect /\ ndisc' = ndisc + 1 /\ UNCHANGED nrel
        \/ backlog # <<>> /\ Resume /\ UNCHANGED <<ndisc, nrel>>
        \/ nrel < MaxReload /\ (\E m \in Mids : Reload(m)) /\ nrel' = nrel + 1 /\ UNCHANGED ndisc

GNext ==
  /\ Len(hist) <= MaxLen
  /\ Step
  /\ hist' = Append(hist, out')

GSpec == GInit /\ [][GNext]_gvars

\* one JSON line per complete behaviour (every distinct history is a distinct state)
Emit == (Len(hist) = MaxLen + 1) => PrintT(ToJson(hist))

=============================================================================
