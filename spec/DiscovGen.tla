----------------------------- MODULE DiscovGen -----------------------------
(***************************************************************************)
(* Behaviour generator for Discov.tla (spec -> code replay, property C15). *)
(*                                                                         *)
(* A behaviour starts from any initial content of the model etcd; its      *)
(* first step attaches a subscriber (nothing is observable before), then   *)
(* up to MaxLen - 1 further steps of Discov!Next follow, with at most      *)
(* MaxDisc disconnections and MaxReload reloads.  Every step carries, for  *)
(* every attached subscriber, the set of value sets Values() may show and  *)
(* whether its listeners must have run - all computed by Discov.tla.       *)
(***************************************************************************)
EXTENDS Discov, Json

CONSTANTS MaxLen, MaxDisc, MaxReload

VARIABLES hist, ndisc, nrel

gvars == <<vars, hist, ndisc, nrel>>

GInit == Init /\ hist = <<[op |-> "init", keys |-> etcd]>> /\ ndisc = 0 /\ nrel = 0

Step ==
  \/ /\ attached = {}
     /\ \E s \in Subs : Attach(s)
     /\ UNCHANGED <<ndisc, nrel>>
  \/ /\ attached # {}
     /\ \/ (\E k \in Keys : Put(k) \/ Delete(k)) /\ UNCHANGED <<ndisc, nrel>>
        \/ (\E s \in Subs : Attach(s)) /\ UNCHANGED <<ndisc, nrel>>
        \/ ndisc < MaxDisc /\ Disconnect /\ ndisc' = ndisc + 1 /\ UNCHANGED nrel
        \/ backlog # <<>> /\ Resume /\ UNCHANGED <<ndisc, nrel>>
        \/ nrel < MaxReload /\ (\E m \in Mids : Reload(m)) /\ nrel' = nrel + 1 /\ UNCHANGED ndisc

GNext ==
  /\ Len(hist) <= MaxLen
  /\ Step
  /\ hist' = Append(hist, out')

GSpec == GInit /\ [][GNext]_gvars

\* one JSON line per complete behaviour (every distinct history is a distinct state)
Emit == (Len(hist) = MaxLen + 1) => PrintT(ToJson(hist))

=============================================================================
