------------------------------- MODULE MRTrace -------------------------------
(***************************************************************************)
(* Property C07 - contract-level acceptor for recorded executions of the   *)
(* mr entry points (code -> spec).  The driver harness/c07/mr_test.go, in  *)
(* its recording pass, logs what the USER functions do, with a global      *)
(* sequence number (file order):                                           *)
(*   reset       new execution: the scenario's obligations and the set of  *)
(*               results MRContract!Outcomes allows (computed by TLC when  *)
(*               the case was generated)                                   *)
(*   gen_send i  generator is about to send item i                         *)
(*   map_begin i / map_end i   the mapper function is entered / left       *)
(*   map_write v the mapper is about to write value v (= item*10+k)        *)
(*   red_recv v  the reducer has received v from the pipe                  *)
(*   red_write k the reducer is about to do its k-th write                 *)
(*   cancel_begin c / cancel_end c   cancel(...) is about to be called /   *)
(*               has returned (c = item of the mapper, 0 = the reducer)    *)
(*   ctx_done    the context is about to be cancelled                      *)
(*   cancel_recorded c / ctx_recorded   (directed scenarios only) the      *)
(*               driver has positively observed that cancel c / the        *)
(*               caller's handling of the done context has recorded its    *)
(*               error inside the call (the goroutine sits in cancel's     *)
(*               drain of the source, which follows the recording); the    *)
(*               reducer is released to write only after this event        *)
(*   ret         the call has returned / re-raised: kind, val              *)
(*   end         everything of the call has come to rest                   *)
(* The acceptor is deterministic (no internal steps): one action per       *)
(* event whose guard is what the statement implies at that point.  A       *)
(* history the acceptor cannot follow is rejected at the first event whose *)
(* guard is false.  Beyond the membership test of the replay driver this   *)
(* checks orderings: an item is mapped only after it was generated and at  *)
(* most once; a value is received only after it was written and at most    *)
(* once; without cancellation never more than `workers` mappers are inside *)
(* the mapper at any point of the history; "the first cancel wins": the    *)
(* cancel whose error is returned must have begun before any other cancel  *)
(* had returned; DeadlineExceeded only after the context was cancelled; a  *)
(* value only after the reducer began to write it; a value is NOT the      *)
(* result when a cancel / the context was recorded before the reducer      *)
(* began its first write (then: that cancel's error / DeadlineExceeded, or *)
(* a re-raised panic); a reducer that read the                             *)
(* pipe to its end implies every item mapped and every value delivered     *)
(* before the call returns.                                                *)
(***************************************************************************)
EXTENDS Integers, Sequences, FiniteSets, TLC, Json

TraceLog == ndJsonDeserialize("trace.ndjson")

VARIABLES l,        \* index of the next event
          sc,       \* obligations of the current execution (from its reset event)
          gen, begun, ended, running, writ, recvd,
          cb, ce, before,   \* cancels begun / ended; before[c] = cancels that had ended when c began
          ctxd, rwb, returned,
          rec, ctxrec,      \* cancellers / context observed recorded so far
          recW, ctxrecW     \* ... as of the moment the reducer began its first write

vars == <<l, sc, gen, begun, ended, running, writ, recvd, cb, ce, before, ctxd, rwb, returned, rec, ctxrec, recW, ctxrecW>>

Ev == TraceLog[l]
Is(name) == l <= Len(TraceLog) /\ TraceLog[l].e = name
Consume == l' = l + 1
Range(s) == {s[i] : i \in DOMAIN s}
Cancellers == 0..100

NoSc == [n |-> 0, workers |-> 1, mapAll |-> FALSE, deliverAll |-> FALSE, written |-> {}, allowed |-> {}, cerr |-> <<>>]

Init ==
  /\ l = 1 /\ sc = NoSc
  /\ gen = {} /\ begun = {} /\ ended = {} /\ running = 0 /\ writ = {} /\ recvd = {}
  /\ cb = {} /\ ce = {} /\ before = [c \in Cancellers |-> {}]
  /\ ctxd = FALSE /\ rwb = 0 /\ returned = FALSE
  /\ rec = {} /\ ctxrec = FALSE /\ recW = {} /\ ctxrecW = FALSE
  /\ TLCSet(1, 1)

Reset ==
  /\ Is("reset")
  /\ sc' = [n |-> Ev.n, workers |-> Ev.workers, mapAll |-> Ev.mapAll, deliverAll |-> Ev.deliverAll,
            written |-> Range(Ev.written), allowed |-> Range(Ev.allowed), cerr |-> Ev.cerr]
  /\ gen' = (IF Ev.pregen THEN 1..Ev.n ELSE {})   \* Finish / FinishVoid generate the items themselves
  /\ begun' = {} /\ ended' = {} /\ running' = 0 /\ writ' = {} /\ recvd' = {}
  /\ cb' = {} /\ ce' = {} /\ before' = [c \in Cancellers |-> {}]
  /\ ctxd' = FALSE /\ rwb' = 0 /\ returned' = FALSE
  /\ rec' = {} /\ ctxrec' = FALSE /\ recW' = {} /\ ctxrecW' = FALSE
  /\ Consume

GenSend ==
  /\ Is("gen_send") /\ Ev.i \notin gen /\ Ev.i \in 1..sc.n
  /\ gen' = gen \cup {Ev.i}
  /\ UNCHANGED <<sc, begun, ended, running, writ, recvd, cb, ce, before, ctxd, rwb, returned, rec, ctxrec, recW, ctxrecW>> /\ Consume

MapBegin ==
  /\ Is("map_begin")
  /\ Ev.i \in gen                      \* only what was generated
  /\ Ev.i \notin begun                 \* at most once
  /\ sc.mapAll => running + 1 <= sc.workers
  /\ begun' = begun \cup {Ev.i} /\ running' = running + 1
  /\ UNCHANGED <<sc, gen, ended, writ, recvd, cb, ce, before, ctxd, rwb, returned, rec, ctxrec, recW, ctxrecW>> /\ Consume

MapEnd ==
  /\ Is("map_end") /\ Ev.i \in begun \ ended
  /\ ended' = ended \cup {Ev.i} /\ running' = running - 1
  /\ UNCHANGED <<sc, gen, begun, writ, recvd, cb, ce, before, ctxd, rwb, returned, rec, ctxrec, recW, ctxrecW>> /\ Consume

MapWrite ==
  /\ Is("map_write") /\ Ev.v \notin writ /\ (Ev.v \div 10) \in begun \ ended
  /\ writ' = writ \cup {Ev.v}
  /\ UNCHANGED <<sc, gen, begun, ended, running, recvd, cb, ce, before, ctxd, rwb, returned, rec, ctxrec, recW, ctxrecW>> /\ Consume

RedRecv ==
  /\ Is("red_recv")
  /\ Ev.v \in writ                     \* nothing out of thin air
  /\ Ev.v \notin recvd                 \* at most once
  /\ recvd' = recvd \cup {Ev.v}
  /\ UNCHANGED <<sc, gen, begun, ended, running, writ, cb, ce, before, ctxd, rwb, returned, rec, ctxrec, recW, ctxrecW>> /\ Consume

RedWrite ==
  /\ Is("red_write") /\ Ev.k = rwb + 1 /\ rwb' = rwb + 1
  /\ recW' = (IF rwb = 0 THEN rec ELSE recW) /\ ctxrecW' = (IF rwb = 0 THEN ctxrec ELSE ctxrecW)
  /\ UNCHANGED <<sc, gen, begun, ended, running, writ, recvd, cb, ce, before, ctxd, returned, rec, ctxrec>> /\ Consume

CancelRecorded ==
  /\ Is("cancel_recorded") /\ Ev.c \in cb \ ce       \* observed inside a cancel that has begun and not returned
  /\ rec' = rec \cup {Ev.c}
  /\ UNCHANGED <<sc, gen, begun, ended, running, writ, recvd, cb, ce, before, ctxd, rwb, returned, ctxrec, recW, ctxrecW>> /\ Consume

CtxRecorded ==
  /\ Is("ctx_recorded") /\ ctxd
  /\ ctxrec' = TRUE
  /\ UNCHANGED <<sc, gen, begun, ended, running, writ, recvd, cb, ce, before, ctxd, rwb, returned, rec, recW, ctxrecW>> /\ Consume

CancelBegin ==
  /\ Is("cancel_begin") /\ Ev.c \notin cb
  /\ cb' = cb \cup {Ev.c} /\ before' = [before EXCEPT ![Ev.c] = ce]
  /\ UNCHANGED <<sc, gen, begun, ended, running, writ, recvd, ce, ctxd, rwb, returned, rec, ctxrec, recW, ctxrecW>> /\ Consume

CancelEnd ==
  /\ Is("cancel_end") /\ Ev.c \in cb \ ce
  /\ ce' = ce \cup {Ev.c}
  /\ UNCHANGED <<sc, gen, begun, ended, running, writ, recvd, cb, before, ctxd, rwb, returned, rec, ctxrec, recW, ctxrecW>> /\ Consume

CtxDone ==
  /\ Is("ctx_done") /\ ctxd' = TRUE
  /\ UNCHANGED <<sc, gen, begun, ended, running, writ, recvd, cb, ce, before, rwb, returned, rec, ctxrec, recW, ctxrecW>> /\ Consume

\* cancels whose error is `v`: sc.cerr[c+1] is the error name of canceller c (c = 0 the reducer)
Owners(v) == {c \in 0..sc.n : sc.cerr[c + 1] = v}
IsCancelErr(v) == Owners(v) # {}

Ret ==
  /\ Is("ret") /\ ~returned
  /\ [kind |-> Ev.kind, val |-> Ev.val] \in sc.allowed
  \* the first cancel wins: the winner had begun, and no other cancel had already returned when it began
  /\ (Ev.kind = "err" /\ IsCancelErr(Ev.val)) => \E c \in Owners(Ev.val) : c \in cb /\ before[c] = {}
  /\ (Ev.kind = "err" /\ Ev.val = "DEADLINE") => ctxd
  /\ (Ev.kind = "ret" /\ Ev.val = "R1") => rwb >= 1
  \* a cancel / the context recorded before the reducer began to write: the write is not the result
  /\ recW # {} => /\ Ev.kind \in {"err", "panic"}
                  /\ Ev.kind = "err" => Ev.val \in {sc.cerr[c + 1] : c \in recW} \cup (IF ctxd THEN {"DEADLINE"} ELSE {})
  /\ ctxrecW => (Ev.kind = "panic" \/ (Ev.kind = "err" /\ Ev.val = "DEADLINE"))
  /\ sc.deliverAll => (begun = 1..sc.n /\ ended = begun /\ recvd = sc.written)
  /\ returned' = TRUE
  /\ UNCHANGED <<sc, gen, begun, ended, running, writ, recvd, cb, ce, before, ctxd, rwb, rec, ctxrec, recW, ctxrecW>> /\ Consume

End ==
  /\ Is("end") /\ returned /\ running = 0
  /\ sc.mapAll => (begun = 1..sc.n /\ ended = begun)
  /\ sc.deliverAll => recvd = sc.written
  /\ UNCHANGED <<sc, gen, begun, ended, running, writ, recvd, cb, ce, before, ctxd, rwb, returned, rec, ctxrec, recW, ctxrecW>> /\ Consume

Next == Reset \/ CancelRecorded \/ CtxRecorded \/ GenSend \/ MapBegin \/ MapEnd \/ MapWrite \/ RedRecv \/ RedWrite \/ CancelBegin \/ CancelEnd
        \/ CtxDone \/ Ret \/ End

Spec == Init /\ [][Next]_vars

Inv_Running == running >= 0 /\ (sc.mapAll => running <= sc.workers)
Inv_Subset == ended \subseteq begun /\ begun \subseteq gen /\ recvd \subseteq writ

HighWater == IF l > TLCGet(1) THEN TLCSet(1, l) ELSE TRUE     \* used as CONSTRAINT (always TRUE)
Accepted  == /\ PrintT(<<"VREG", "hw", TLCGet(1)>>)
             /\ TLCGet(1) = Len(TraceLog) + 1
=============================================================================
