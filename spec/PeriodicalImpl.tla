--------------------------- MODULE PeriodicalImpl ---------------------------
(***************************************************************************)
(* Mechanism-shaped model of lib/executors/periodicalexecutor.go           *)
(* (property C16): pe.lock regions, the 1-slot `commander` channel, the    *)
(* unbuffered `confirmChan`, `inflight`, `guarded`, the wgBarrier/waitGroup *)
(* pair, the background flusher's select loop with `commanded`, the idle   *)
(* quit decision (shallQuit) and the flusher's deferred final Flush.       *)
(*                                                                         *)
(* One action = one lock region / one channel operation / one wgBarrier    *)
(* region, so TLC interleaves exactly what the Go scheduler can interleave. *)
(* (pe.inflight is decremented outside pe.lock by the flusher that is in   *)
(* the loop; the only reader under the lock is that same flusher, so lock  *)
(* regions are atomic w.r.t. everything they read.)                        *)
(*                                                                         *)
(* Callers: Adders, each running a fixed script of "add" / "flush" /       *)
(* "wait".  Flushers: generations 1..MaxGen, spawned by the Add that finds *)
(* guarded = FALSE.  Environment: the ticker may tick whenever the flusher *)
(* is in its select (Go chooses arbitrarily between ready cases), and the  *)
(* clock may jump past 10 idle intervals at any moment (`stale`).          *)
(* The container is the "threshold Thr" container (bulk executor shape).   *)
(*                                                                         *)
(* Cap = capacity of the commander channel: 1 in the code under test;      *)
(* 0 (rendezvous) models the repaired hand-over.                           *)
(***************************************************************************)
EXTENDS Integers, Sequences, FiniteSets, TLC

CONSTANTS NA,        \* number of callers
          Scripts,   \* [1..NA -> Seq({"add","flush","wait"})]
          Thr,       \* container threshold (AddTask returns TRUE when Len(held) >= Thr)
          MaxGen,    \* flusher generations; the last one never sees the clock jump
          Cap,       \* capacity of `commander` (1 = code under test)
          Variant,   \* "code": as written.  Two seeded mechanism changes that the recorder catches on the real
                     \*   code are kept as expected-violation variants (vacuity guards of the model):
                     \*   "quit_ignores_inflight": shallQuit clears guarded without requiring inflight = 0;
                     \*   "unguard_after_final_flush": guarded is cleared in the flusher's exit path, after the
                     \*   deferred final Flush, instead of inside shallQuit's lock region
                     \*   "no_final_flush": the retiring flusher ends without its deferred final Flush (an Add that
                     \*   lands between the tick's empty Flush and shallQuit's lock region is accepted while
                     \*   guarded = TRUE, so nobody is started for it: HeldCovered / AllExecuted must fail)
          Fix        \* 0 = code under test; 1 = proposed repair: the flusher decrements inflight only after
                     \*     enterExecution, and Wait lets inflight drain to 0 before waitGroup.Wait()

Adders   == 1..NA
Flushers == (NA + 1)..(NA + MaxGen)
Procs    == Adders \cup Flushers
MaxT     == LET n[i \in 0..NA] == IF i = 0 THEN 0
                                  ELSE n[i - 1] + Cardinality({k \in 1..Len(Scripts[i]) : Scripts[i][k] = "add"})
            IN n[NA]

VARIABLES pc, ret, bat, ip, cur, flok,          \* per process
          held, cmd, inflight, guarded,         \* pe.container / pe.commander / pe.inflight / pe.guarded
          barrier, wg,                          \* pe.wgBarrier (0 = free) / pe.waitGroup counter
          gen, commanded, stale,                \* flusher generations, `commanded`, Since(last) > 10 intervals
          added, nexec, finished, returned, must, wok, contig   \* observation only

vars == <<pc, ret, bat, ip, cur, flok, held, cmd, inflight, guarded, barrier, wg, gen, commanded, stale,
          added, nexec, finished, returned, must, wok, contig>>

Range(s) == {s[i] : i \in 1..Len(s)}

Init ==
  /\ pc = [q \in Procs |-> IF q \in Adders THEN "idle" ELSE "none"]
  /\ ret = [q \in Procs |-> "-"]
  /\ bat = [q \in Procs |-> <<>>]
  /\ ip = [p \in Adders |-> 1]
  /\ cur = [p \in Adders |-> 0]
  /\ flok = [q \in Procs |-> FALSE]
  /\ held = <<>> /\ cmd = <<>> /\ inflight = 0 /\ guarded = FALSE
  /\ barrier = 0 /\ wg = 0
  /\ gen = 0
  /\ commanded = [f \in Flushers |-> FALSE]
  /\ stale = [f \in Flushers |-> FALSE]
  /\ added = <<>> /\ nexec = [t \in 1..MaxT |-> 0] /\ finished = {} /\ returned = {}
  /\ must = [p \in Adders |-> {}] /\ wok = TRUE /\ contig = TRUE

Goto(q, l) == pc' = [pc EXCEPT ![q] = l]

(* ------------------------------------------------------------------ callers *)

Dispatch(p) ==
  /\ pc[p] = "idle" /\ ip[p] <= Len(Scripts[p])
  /\ LET op == Scripts[p][ip[p]] IN
       CASE op = "add"   -> /\ Goto(p, "a_lock") /\ UNCHANGED <<ret, must>>
         [] op = "flush" -> /\ Goto(p, "fl1") /\ ret' = [ret EXCEPT ![p] = "next"] /\ UNCHANGED must
         [] op = "wait"  -> /\ Goto(p, "fl1") /\ ret' = [ret EXCEPT ![p] = IF Fix = 1 THEN "w_drain" ELSE "w_acq"]
                            /\ must' = [must EXCEPT ![p] = returned]       \* every Add that has returned
  /\ UNCHANGED <<bat, ip, cur, flok, held, cmd, inflight, guarded, barrier, wg, gen, commanded, stale,
                 added, nexec, finished, returned, wok, contig>>

\* addAndCheck: one region of pe.lock (AddTask, threshold => inflight++ and RemoveAll,
\* !guarded => guarded = true and the flusher goroutine is started)
ALock(p) ==
  /\ pc[p] = "a_lock"
  /\ LET t  == Len(added) + 1
         h2 == Append(held, t)
         spawn == ~guarded
     IN /\ added' = Append(added, t)
        /\ cur' = [cur EXCEPT ![p] = t]
        /\ IF Len(h2) >= Thr
             THEN /\ inflight' = inflight + 1 /\ held' = <<>>
                  /\ bat' = [bat EXCEPT ![p] = h2]
             ELSE /\ held' = h2 /\ UNCHANGED <<inflight, bat>>
        /\ IF spawn
             THEN /\ gen < MaxGen            \* (closed by construction: the last generation never quits)
                  /\ guarded' = TRUE /\ gen' = gen + 1
                  /\ pc' = [pc EXCEPT ![p] = IF Len(h2) >= Thr THEN "a_send" ELSE "a_ret",
                                      ![NA + gen + 1] = "f_start"]
             ELSE /\ UNCHANGED <<guarded, gen>>
                  /\ Goto(p, IF Len(h2) >= Thr THEN "a_send" ELSE "a_ret")
  /\ UNCHANGED <<ret, ip, flok, cmd, barrier, wg, commanded, stale, nexec, finished, returned, must, wok, contig>>

\* pe.commander <- values   (buffered)
ASendBuf(p) ==
  /\ Cap > 0 /\ pc[p] = "a_send" /\ Len(cmd) < Cap
  /\ cmd' = Append(cmd, bat[p])
  /\ bat' = [bat EXCEPT ![p] = <<>>]
  /\ Goto(p, "a_conf")
  /\ UNCHANGED <<ret, ip, cur, flok, held, inflight, guarded, barrier, wg, gen, commanded, stale,
                 added, nexec, finished, returned, must, wok, contig>>

\* pe.commander <- values   (rendezvous with the flusher's select; Cap = 0)
ASendSync(p, f) ==
  /\ Cap = 0 /\ pc[p] = "a_send" /\ pc[f] = "f_select"
  /\ bat' = [bat EXCEPT ![p] = <<>>, ![f] = bat[p]]
  /\ commanded' = [commanded EXCEPT ![f] = TRUE]
  /\ inflight' = IF Fix = 1 THEN inflight ELSE inflight - 1
  /\ pc' = [pc EXCEPT ![p] = "a_conf", ![f] = "f_enter"]
  /\ UNCHANGED <<ret, ip, cur, flok, held, cmd, guarded, barrier, wg, gen, stale,
                 added, nexec, finished, returned, must, wok, contig>>

\* pe.confirmChan is unbuffered: the flusher's send meets ANY caller blocked in <-pe.confirmChan
Confirm(f, p) ==
  /\ pc[f] = "f_confirm" /\ pc[p] = "a_conf"
  /\ pc' = [pc EXCEPT ![f] = "x1", ![p] = "a_ret"]
  /\ ret' = [ret EXCEPT ![f] = "f_aftercmd"]
  /\ UNCHANGED <<bat, ip, cur, flok, held, cmd, inflight, guarded, barrier, wg, gen, commanded, stale,
                 added, nexec, finished, returned, must, wok, contig>>

ARet(p) ==
  /\ pc[p] = "a_ret"
  /\ returned' = returned \cup {cur[p]}
  /\ Goto(p, "next")
  /\ UNCHANGED <<ret, bat, ip, cur, flok, held, cmd, inflight, guarded, barrier, wg, gen, commanded, stale,
                 added, nexec, finished, must, wok, contig>>

NextOp(p) ==
  /\ pc[p] = "next"
  /\ ip' = [ip EXCEPT ![p] = @ + 1]
  /\ Goto(p, "idle")
  /\ UNCHANGED <<ret, bat, cur, flok, held, cmd, inflight, guarded, barrier, wg, gen, commanded, stale,
                 added, nexec, finished, returned, must, wok, contig>>

\* Wait: pe.wgBarrier.Guard(func() { pe.waitGroup.Wait() })
WAcq(p) ==
  /\ pc[p] = "w_acq" /\ barrier = 0
  /\ barrier' = p
  /\ Goto(p, "w_wait")
  /\ UNCHANGED <<ret, bat, ip, cur, flok, held, cmd, inflight, guarded, wg, gen, commanded, stale,
                 added, nexec, finished, returned, must, wok, contig>>

WDrain(p) ==                      \* repair only: for atomic.LoadInt32(&pe.inflight) > 0 { yield }
  /\ pc[p] = "w_drain" /\ inflight = 0
  /\ Goto(p, "w_acq")
  /\ UNCHANGED <<ret, bat, ip, cur, flok, held, cmd, inflight, guarded, barrier, wg, gen, commanded, stale,
                 added, nexec, finished, returned, must, wok, contig>>

WWait(p) ==
  /\ pc[p] = "w_wait" /\ wg = 0
  /\ barrier' = 0
  /\ wok' = (wok /\ must[p] \subseteq finished)
  /\ Goto(p, "next")
  /\ UNCHANGED <<ret, bat, ip, cur, flok, held, cmd, inflight, guarded, wg, gen, commanded, stale,
                 added, nexec, finished, returned, must, contig>>

(* ------------------------------------------------------------------ Flush (any process)
   fl1: enterExecution (wgBarrier region: waitGroup.Add(1))
   fl2: pe.lock region: RemoveAll
   x1 : container.Execute begins (skipped for an empty batch)
   x2 : Execute returned; doneExecution                                               *)

Fl1(q) ==
  /\ pc[q] = "fl1" /\ barrier = 0
  /\ wg' = wg + 1
  /\ Goto(q, "fl2")
  /\ UNCHANGED <<ret, bat, ip, cur, flok, held, cmd, inflight, guarded, barrier, gen, commanded, stale,
                 added, nexec, finished, returned, must, wok, contig>>

Fl2(q) ==
  /\ pc[q] = "fl2"
  /\ bat' = [bat EXCEPT ![q] = held]
  /\ flok' = [flok EXCEPT ![q] = (held # <<>>)]
  /\ held' = <<>>
  /\ Goto(q, "x1")
  /\ UNCHANGED <<ret, ip, cur, cmd, inflight, guarded, barrier, wg, gen, commanded, stale,
                 added, nexec, finished, returned, must, wok, contig>>

X1(q) ==
  /\ pc[q] = "x1"
  /\ nexec' = [t \in 1..MaxT |-> IF t \in Range(bat[q]) THEN nexec[t] + 1 ELSE nexec[t]]
  /\ contig' = (contig /\ \A i \in 1..(Len(bat[q]) - 1) : bat[q][i + 1] = bat[q][i] + 1)
  /\ Goto(q, "x2")
  /\ UNCHANGED <<ret, bat, ip, cur, flok, held, cmd, inflight, guarded, barrier, wg, gen, commanded, stale,
                 added, finished, returned, must, wok>>

X2(q) ==
  /\ pc[q] = "x2"
  /\ finished' = finished \cup Range(bat[q])
  /\ bat' = [bat EXCEPT ![q] = <<>>]
  /\ wg' = wg - 1
  /\ Goto(q, ret[q])
  /\ UNCHANGED <<ret, ip, cur, flok, held, cmd, inflight, guarded, barrier, gen, commanded, stale,
                 added, nexec, returned, must, wok, contig>>

(* ------------------------------------------------------------------ background flusher *)

Alive(f)  == pc[f] \notin {"none", "f_dead"}
Final(f)  == (ret[f] \in {"f_dead", "f_unguard"} /\ pc[f] \in {"fl1", "fl2", "x1", "x2"}) \/ pc[f] = "f_unguard"
InLoop(f) == Alive(f) /\ ~Final(f)

FStart(f) ==                      \* ticker := newTicker(); last := timex.Now()
  /\ pc[f] = "f_start"
  /\ Goto(f, "f_select")
  /\ UNCHANGED <<ret, bat, ip, cur, flok, held, cmd, inflight, guarded, barrier, wg, gen, commanded, stale,
                 added, nexec, finished, returned, must, wok, contig>>

FRecv(f) ==                       \* case tasks := <-pe.commander
  /\ Cap > 0 /\ pc[f] = "f_select" /\ cmd # <<>>
  /\ bat' = [bat EXCEPT ![f] = Head(cmd)]
  /\ cmd' = Tail(cmd)
  /\ commanded' = [commanded EXCEPT ![f] = TRUE]
  /\ inflight' = IF Fix = 1 THEN inflight ELSE inflight - 1      \* atomic.AddInt32(&pe.inflight, -1)
  /\ Goto(f, "f_enter")
  /\ UNCHANGED <<ret, ip, cur, flok, held, guarded, barrier, wg, gen, stale,
                 added, nexec, finished, returned, must, wok, contig>>

FEnter(f) ==                      \* pe.enterExecution()
  /\ pc[f] = "f_enter" /\ barrier = 0
  /\ wg' = wg + 1
  /\ inflight' = IF Fix = 1 THEN inflight - 1 ELSE inflight
  /\ Goto(f, "f_confirm")
  /\ UNCHANGED <<ret, bat, ip, cur, flok, held, cmd, guarded, barrier, gen, commanded, stale,
                 added, nexec, finished, returned, must, wok, contig>>

FAfterCmd(f) ==                   \* last = timex.Now()
  /\ pc[f] = "f_aftercmd"
  /\ stale' = [stale EXCEPT ![f] = FALSE]
  /\ Goto(f, "f_select")
  /\ UNCHANGED <<ret, bat, ip, cur, flok, held, cmd, inflight, guarded, barrier, wg, gen, commanded,
                 added, nexec, finished, returned, must, wok, contig>>

FTick(f) ==                       \* case <-ticker.Chan()
  /\ pc[f] = "f_select"
  /\ IF commanded[f]
       THEN /\ commanded' = [commanded EXCEPT ![f] = FALSE]
            /\ UNCHANGED <<pc, ret>>
       ELSE /\ Goto(f, "fl1")
            /\ ret' = [ret EXCEPT ![f] = "f_aftertick"]
            /\ UNCHANGED commanded
  /\ UNCHANGED <<bat, ip, cur, flok, held, cmd, inflight, guarded, barrier, wg, gen, stale,
                 added, nexec, finished, returned, must, wok, contig>>

FAfterTick(f) ==
  /\ pc[f] = "f_aftertick"
  /\ IF flok[f]
       THEN /\ stale' = [stale EXCEPT ![f] = FALSE] /\ Goto(f, "f_select")
       ELSE /\ UNCHANGED stale /\ Goto(f, "f_quitchk")
  /\ UNCHANGED <<ret, bat, ip, cur, flok, held, cmd, inflight, guarded, barrier, wg, gen, commanded,
                 added, nexec, finished, returned, must, wok, contig>>

FQuitChk(f) ==                    \* shallQuit: time test, then a pe.lock region
  /\ pc[f] = "f_quitchk"
  /\ IF stale[f] /\ (inflight = 0 \/ Variant = "quit_ignores_inflight")
       THEN /\ guarded' = IF Variant = "unguard_after_final_flush" THEN guarded ELSE FALSE
            /\ Goto(f, IF Variant = "no_final_flush" THEN "f_dead" ELSE "fl1")   \* deferred ticker.Stop(); deferred pe.Flush()
            /\ ret' = [ret EXCEPT ![f] = IF Variant = "unguard_after_final_flush" THEN "f_unguard" ELSE "f_dead"]
       ELSE /\ Goto(f, "f_select") /\ UNCHANGED <<guarded, ret>>
  /\ UNCHANGED <<bat, ip, cur, flok, held, cmd, inflight, barrier, wg, gen, commanded, stale,
                 added, nexec, finished, returned, must, wok, contig>>

FUnguard(f) ==                    \* variant only: guarded = false after the final Flush (a pe.lock region)
  /\ pc[f] = "f_unguard"
  /\ guarded' = FALSE
  /\ Goto(f, "f_dead")
  /\ UNCHANGED <<ret, bat, ip, cur, flok, held, cmd, inflight, barrier, wg, gen, commanded, stale,
                 added, nexec, finished, returned, must, wok, contig>>

ClockJump(f) ==                   \* environment: more than 10 intervals pass since `last`
  /\ Alive(f) /\ ~stale[f] /\ f < NA + MaxGen
  /\ stale' = [stale EXCEPT ![f] = TRUE]
  /\ UNCHANGED <<pc, ret, bat, ip, cur, flok, held, cmd, inflight, guarded, barrier, wg, gen, commanded,
                 added, nexec, finished, returned, must, wok, contig>>

AllDone == \A p \in Adders : pc[p] = "idle" /\ ip[p] > Len(Scripts[p])

Terminated == AllDone /\ UNCHANGED vars

Next ==
  \/ \E p \in Adders : Dispatch(p) \/ ALock(p) \/ ASendBuf(p) \/ ARet(p) \/ NextOp(p) \/ WAcq(p) \/ WWait(p) \/ WDrain(p)
  \/ \E p \in Adders, f \in Flushers : ASendSync(p, f) \/ Confirm(f, p)
  \/ \E q \in Procs : Fl1(q) \/ Fl2(q) \/ X1(q) \/ X2(q)
  \/ \E f \in Flushers : FStart(f) \/ FRecv(f) \/ FEnter(f) \/ FAfterCmd(f) \/ FTick(f) \/ FAfterTick(f)
                         \/ FQuitChk(f) \/ FUnguard(f) \/ ClockJump(f)
  \/ Terminated

Spec == Init /\ [][Next]_vars

(* ------------------------------------------------------------------ properties *)

InBatch(t, b) == \E i \in 1..Len(b) : b[i] = t
B2N(x) == IF x THEN 1 ELSE 0

\* where a task that has been added can be: container, commander buffer, a batch carried by a
\* process that has not yet begun to execute it, or executed (nexec)
Places(t) ==
    B2N(InBatch(t, held))
  + Cardinality({i \in 1..Len(cmd) : InBatch(t, cmd[i])})
  + Cardinality({q \in Procs : pc[q] \in {"a_send", "f_enter", "f_confirm", "x1"} /\ InBatch(t, bat[q])})
  + nexec[t]

\* exactly once: never lost, never duplicated (state invariant) ...
ExactlyOnce == \A t \in 1..Len(added) : Places(t) = 1
\* ... and whatever is still waiting has somebody who will execute it
HeldCovered == held # <<>> => \E f \in Flushers : Alive(f) /\ ~(ret[f] \in {"f_dead", "f_unguard"} /\ pc[f] \in {"x1", "x2"})
                                                    /\ pc[f] # "f_unguard"
CmdCovered  == (cmd # <<>> \/ \E p \in Adders : pc[p] = "a_send") => \E f \in Flushers : InLoop(f)
\* hence at quiescence every added task has been executed exactly once
Quiescent   == AllDone /\ (\A f \in Flushers : ~Alive(f))
AllExecuted == Quiescent => \A t \in 1..Len(added) : nexec[t] = 1 /\ t \in finished

\* a batch is a run of consecutively added tasks in the order they were added
Contiguous == contig

\* Wait returned only after every task whose Add had returned before the Wait call finished executing
WaitSound == wok

OneLoopFlusher == Cardinality({f \in Flushers : InLoop(f)}) <= 1

=============================================================================
