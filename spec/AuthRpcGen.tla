----------------------------- MODULE AuthRpcGen -----------------------------
(* Behaviour generator for AuthRpc.tla (property C04). *)
EXTENDS AuthRpc, Json
VARIABLE hist
gvars == <<vars, hist>>
GInit == Init /\ hist = <<out>>
GNext == Next /\ hist' = Append(hist, out')
GSpec == GInit /\ [][GNext]_gvars
Emit == n = MaxCalls => PrintT(ToJson(hist))   \* (no store change is offered after the last call)
=============================================================================
