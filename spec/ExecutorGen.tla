----------------------------- MODULE ExecutorGen -----------------------------
(***************************************************************************)
(* Behaviour generator for property C16: SEQUENTIAL use (one caller) of    *)
(* BulkExecutor / ChunkExecutor under a hand-driven ticker and the virtual *)
(* clock.  With one caller the triggers listed in the statement decide     *)
(* every batch: an Add that reaches the size / byte threshold, a tick, an  *)
(* explicit Flush or Wait - each executes everything held, in the order    *)
(* added, and nothing executes otherwise (Executor.tla with the choice of  *)
(* the Take moments resolved by the trigger list).  The generator predicts *)
(* for every step the batches executed by the time the executor is at rest *)
(* again; the driver replays the behaviour on the real executor and        *)
(* compares step by step.                                                  *)
(*                                                                         *)
(* Two points where the statement leaves room are marked instead of        *)
(* predicted: (a) the code skips the tick that follows a threshold flush   *)
(* (`commanded`); the statement would also allow that tick to flush, so    *)
(* such a step carries opt = TRUE and alt = the batch it may execute (and  *)
(* with nothing held it may already take the idle-quit decision);          *)
(* (b) the idle period after which the flusher retires is only exercised   *)
(* as "no virtual time passed" versus "11 intervals passed".               *)
(*                                                                         *)
(* Sizes (chunk) is a dimension of its own and includes 0: what is held is *)
(* the task list, not a byte count - a batch of size-0 tasks never reaches *)
(* the byte threshold, and tick / Flush / Wait execute it like any other   *)
(* (held # <<>>, whatever Bytes(held) is).  checks/c16.py instantiates it  *)
(* with 0 and with Max - 1, Max, Max + 1.                                  *)
(***************************************************************************)
EXTENDS Integers, Sequences, TLC, Json

CONSTANTS Kind,      \* "bulk" | "chunk"
          Max,       \* tasks per batch (bulk) / byte limit (chunk)
          Sizes,     \* task sizes offered to Add
          Ops,       \* subset of {"add","tick","flush","wait","jump"}
          MaxLen     \* steps per behaviour

VARIABLES held,      \* tasks in the container: sequence of [t, s]
          alive,     \* a background flusher exists
          commanded, \* the flusher executed a threshold batch since its last tick
          stale,     \* more than 10 intervals of virtual time since the flusher last executed / started
          n,         \* tasks added so far
          hist

gvars == <<held, alive, commanded, stale, n, hist>>

Bytes(h) == LET sum[i \in 0..Len(h)] == IF i = 0 THEN 0 ELSE sum[i - 1] + h[i].s IN sum[Len(h)]
Reached(h) == IF Kind = "bulk" THEN Len(h) >= Max ELSE Bytes(h) >= Max
Ids(h) == [i \in 1..Len(h) |-> h[i].t]
All(h) == IF h = <<>> THEN <<>> ELSE <<Ids(h)>>

Rec(op, t, s, exec, opt, alt, fstop) ==
  [op |-> op, t |-> t, s |-> s, exec |-> exec, opt |-> opt, alt |-> alt, fstop |-> fstop, alive |-> alive']

GInit == held = <<>> /\ alive = FALSE /\ commanded = FALSE /\ stale = FALSE /\ n = 0 /\ hist = <<>>

Add(s) ==
  LET t == n + 1
      h2 == Append(held, [t |-> t, s |-> s]) IN
  /\ "add" \in Ops
  /\ n' = t /\ alive' = TRUE
  /\ IF Reached(h2)
       THEN /\ held' = <<>> /\ commanded' = TRUE /\ stale' = FALSE
            /\ hist' = Append(hist, Rec("add", t, s, <<Ids(h2)>>, FALSE, <<>>, FALSE))
       ELSE /\ held' = h2
            /\ commanded' = (alive /\ commanded) /\ stale' = (alive /\ stale)
            /\ hist' = Append(hist, Rec("add", t, s, <<>>, FALSE, <<>>, FALSE))

Tick ==
  /\ "tick" \in Ops /\ alive
  /\ UNCHANGED n
  /\ IF commanded
       THEN /\ commanded' = FALSE /\ UNCHANGED <<held, alive, stale>>
            /\ hist' = Append(hist, Rec("tick", 0, 0, <<>>, TRUE, All(held), FALSE))
       ELSE IF held # <<>>
         THEN /\ held' = <<>> /\ stale' = FALSE /\ UNCHANGED <<alive, commanded>>
              /\ hist' = Append(hist, Rec("tick", 0, 0, All(held), FALSE, <<>>, FALSE))
         ELSE /\ alive' = ~stale /\ UNCHANGED <<held, commanded, stale>>
              /\ hist' = Append(hist, Rec("tick", 0, 0, <<>>, FALSE, <<>>, stale))

Sync(op) ==                       \* Flush / Wait by the caller
  /\ op \in Ops
  /\ held' = <<>> /\ UNCHANGED <<alive, commanded, stale, n>>
  /\ hist' = Append(hist, Rec(op, 0, 0, All(held), FALSE, <<>>, FALSE))

Jump ==
  /\ "jump" \in Ops /\ alive /\ ~stale
  /\ stale' = TRUE /\ UNCHANGED <<held, alive, commanded, n>>
  /\ hist' = Append(hist, Rec("jump", 0, 0, <<>>, FALSE, <<>>, FALSE))

done == Len(hist) = MaxLen

GNext == ~done /\ (\/ \E s \in Sizes : Add(s)
                   \/ Tick \/ Sync("flush") \/ Sync("wait") \/ Jump)

GSpec == GInit /\ [][GNext]_gvars

\* the final Wait of the driver executes what is still held
End == [op |-> "end", t |-> 0, s |-> 0, exec |-> All(held), opt |-> FALSE, alt |-> <<>>, fstop |-> FALSE, alive |-> alive]
Emit == done => PrintT(ToJson(Append(hist, End)))

\* sanity of the generator itself
GBound == \A i \in 1..Len(hist) : \A k \in 1..Len(hist[i].exec) :
            Kind = "bulk" => Len(hist[i].exec[k]) <= Max

=============================================================================
