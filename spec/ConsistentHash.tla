--------------------------- MODULE ConsistentHash ---------------------------
(***************************************************************************)
(* Consistent hashing as a CONTRACT OVER ASSIGNMENT VECTORS (property C13; *)
(* lib/hash/consistenthash.go).                                            *)
(*                                                                         *)
(* The hash function is an environment the model does not contain.  The    *)
(* state is what the statement talks about: the membership (`mem`: node -> *)
(* number of virtual nodes, Absent when not added) and the node each probe *)
(* key is currently assigned to (`asg`, None = "lookup reports absence").  *)
(* Every action constrains asg' only as far as the statement does:         *)
(*   Total      a lookup returns a member of positive weight; None iff     *)
(*              there is no such member;                                   *)
(*   Stable     a lookup leaves the assignment as it is;                   *)
(*   Remove(n)  only keys assigned to n change;                            *)
(*   Add*(n)    n absent: a key that changes moves to n;                   *)
(*              n present (re-add): a key that changes moves from or to n; *)
(*   weight 0 / 0 replicas / removed: the node owns no key (by Total).     *)
(* Where the statement leaves the outcome open (which keys move) the spec  *)
(* has the whole set of admissible vectors.                                *)
(***************************************************************************)
EXTENDS Integers, FiniteSets, TLC

CONSTANTS Nodes,     \* node names (strings)
          Probe,     \* probe keys (1..K)
          Base,      \* virtual nodes of a plain Add (ConsistentHash.replicas)
          Weights,   \* weights offered to AddWithWeight (per cent)
          Reps       \* replica counts offered to AddWithReplicas

None   == "-"        \* Get reported absence
Absent == -1         \* node not added

VARIABLES mem,       \* [Nodes -> Int]: Absent, 0 (added without virtual nodes), > 0
          asg,       \* [Probe -> Nodes \cup {None}]
          out        \* observation only: the last operation

vars == <<mem, asg, out>>
core == <<mem, asg>>

Min2(a, b) == IF a < b THEN a ELSE b
Max2(a, b) == IF a > b THEN a ELSE b

AddOps == {"add", "addw", "addr"}

\* The REPLICA SETTING of a ring: NewCustomConsistentHash(s, fn) creates a ring whose plain Add uses
\* BaseOf(s) virtual nodes - a setting below the minimum (also 0 and below) is RAISED TO THE MINIMUM, so
\* that AddWithWeight(n, w) with w >= 1 never truncates to 0 virtual nodes ("reports absence only when no
\* node of positive weight is present") and equal weights get comparable shares.  NewConsistentHash() is
\* the setting MinReplicas.  Base is the constant of one TLC run; the generator and the trace spec ASSUME
\* that every setting they carry has BaseOf(setting) = Base.
MinReplicas == 100
BaseOf(s) == IF s < MinReplicas THEN MinReplicas ELSE s

\* number of virtual nodes an add operation asks for
Eff(o) == CASE o.op = "add"  -> Base
            [] o.op = "addw" -> Max2(0, (Base * o.w) \div 100)
            [] o.op = "addr" -> Max2(0, Min2(o.r, Base))

Ops == {[op |-> "add", n |-> n] : n \in Nodes}
       \cup {[op |-> "addw", n |-> n, w |-> w] : n \in Nodes, w \in Weights}
       \cup {[op |-> "addr", n |-> n, r |-> r] : n \in Nodes, r \in Reps}
       \cup {[op |-> "remove", n |-> n] : n \in Nodes}
       \cup {[op |-> "lookup"]}

InitMem == [n \in Nodes |-> Absent]
InitAsg == [k \in Probe |-> None]

\* "build" (trace validation only): a constructor (cache.New, kv.New) adds o.mem[n] virtual nodes
\* of every node n to an empty ring in one observed step
\* "new" (generator / trace validation): the ring is created with replica setting o.set - it is empty
MemAfter(m, o) == CASE o.op = "lookup" -> m
                    [] o.op = "new"    -> InitMem
                    [] o.op = "remove" -> [m EXCEPT ![o.n] = Absent]
                    [] o.op = "build"  -> [n \in Nodes |-> o.mem[n]]
                    [] OTHER           -> [m EXCEPT ![o.n] = Eff(o)]

Live(m) == {n \in Nodes : m[n] > 0}

\* a lookup result is a live member; absence only when there is none
TotalAt(m, x) == IF Live(m) = {} THEN x = None ELSE x \in Live(m)
Total(m, a)   == \A k \in DOMAIN a : TotalAt(m, a[k])

\* may a key move from node f to node t (f # t) when operation o is applied in membership m?
MoveOK(m, o, f, t) ==
  CASE o.op = "lookup" -> FALSE
    [] o.op = "remove" -> f = o.n
    [] o.op = "build"  -> f = None /\ m = InitMem
    [] o.op = "new"    -> FALSE
    [] OTHER           -> IF m[o.n] = Absent THEN t = o.n ELSE (f = o.n \/ t = o.n)

Contract(m, a, o, a2) ==
  /\ Total(MemAfter(m, o), a2)
  /\ \A k \in DOMAIN a : a2[k] # a[k] => MoveOK(m, o, a[k], a2[k])


Init == mem = InitMem /\ asg = InitAsg /\ out = [op |-> "init"]

Step(o) ==
  /\ mem' = MemAfter(mem, o)
  /\ asg' \in {a \in [Probe -> Nodes \cup {None}] : Contract(mem, asg, o, a)}
  /\ out' = o

Next == \E o \in Ops : Step(o)

Spec == Init /\ [][Next]_vars

(* ---------------------------------------------------------------- properties *)

TypeOK ==
  /\ mem \in [Nodes -> {Absent} \cup 0..Base]
  /\ asg \in [Probe -> Nodes \cup {None}]

\* "returns one of the currently added nodes (absence only when no node of positive weight)"
InvTotal == Total(mem, asg)

\* "a node added with weight 0 receives no keys" (and neither does a removed node)
ZeroOwnsNothing == \A n \in Nodes : mem[n] <= 0 => \A k \in Probe : asg[k] # n

\* the contract never asks for the impossible: every operation has an admissible outcome
Implementable == \A o \in Ops : ENABLED Step(o)

\* "returns the same node every time while membership is unchanged"
Stable == [][out'.op = "lookup" => asg' = asg]_vars

\* "removing a node changes the assignment only of keys that were assigned to it"
RemoveOnlyOwn == [][out'.op = "remove" => \A k \in Probe : asg[k] # out'.n => asg'[k] = asg[k]]_vars

\* "adding a node changes the assignment only of keys that move to the new node"
AddOnlyToNew ==
  [][(out'.op \in AddOps /\ mem[out'.n] = Absent) => \A k \in Probe : asg'[k] # asg[k] => asg'[k] = out'.n]_vars

\* minimal disruption in one line: whatever the operation, a key that moves, moves from or
\* to the node the operation names
Disruption ==
  [][\A k \in Probe : asg'[k] # asg[k] => (out'.op # "lookup" /\ out'.n \in {asg[k], asg'[k]})]_vars

=============================================================================
