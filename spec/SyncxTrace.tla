----------------------------- MODULE SyncxTrace -----------------------------
(***************************************************************************)
(* Call-level specifications of the lib/syncx primitives (property C18),   *)
(* written as a TRACE ACCEPTOR: the module reads a recorded history        *)
(* (trace.ndjson: one JSON event per line, file order = the global         *)
(* sequence number taken by the driver) and TLC decides whether the        *)
(* history is a behaviour of the primitive's sequential contract.          *)
(*                                                                         *)
(* A call is split into its invocation event `inv`, its response event     *)
(* `ret`, and - between them - an internal step (Lin / Register / Delete)  *)
(* that is NOT logged: TLC chooses where it happens.  A history is         *)
(* accepted iff some placement of the internal steps explains every        *)
(* logged event (linearizability w.r.t. the sequential contract).  User    *)
(* callbacks that belong to the contract (fn of SingleFlight/LockedCalls,  *)
(* create/destroy of Pool, clean of RefResource, create/close of           *)
(* ResourceManager, generate of ManagedResource) are logged from inside    *)
(* the callback and are constrained by the abstract state.                 *)
(*                                                                         *)
(* A `hang` event (the recorder found calls that did not return within a    *)
(* long grace period although nothing in the history can still release     *)
(* them) has no action at all: every contract here promises that a call    *)
(* returns once the calls it may wait for have returned, so a history      *)
(* containing it is rejected at that event.                                *)
(*                                                                         *)
(* Many short histories are concatenated; a `reset` event re-establishes   *)
(* the initial state of the primitive named in it.  Acceptance: the        *)
(* high-water mark of `l` (TLC register 1, updated from the constraint     *)
(* HighWater) must reach Len(TraceLog)+1.                                  *)
(*                                                                         *)
(* kinds:  sf SingleFlight   lc LockedCalls   lim Limit   tl TimeoutLimit  *)
(*         pool Pool   ref RefResource   rm ResourceManager                *)
(*         mr ManagedResource   spin SpinLock/Barrier   og OnceGuard       *)
(*         dc DoneChan   once Once   ir ImmutableResource                  *)
(***************************************************************************)
EXTENDS Integers, Sequences, FiniteSets, TLC, Json

TraceLog == ndJsonDeserialize("trace.ndjson")

VARIABLES l,      \* index of the next event to consume
          kind,   \* primitive under test in the current history
          st,     \* abstract state of the primitive (a record whose shape depends on kind)
          pc      \* per process (goroutine id) call state

vars == <<l, kind, st, pc>>

Procs == 0..15
Idle  == [s |-> "idle"]
Ev    == TraceLog[l]
Is(name) == l <= Len(TraceLog) /\ TraceLog[l].e = name
Consume  == l' = l + 1
P        == Ev.p

SetPc(p, r) == pc' = [pc EXCEPT ![p] = r]

Init ==
  /\ l = 1
  /\ kind = "none"
  /\ st = [x |-> 0]
  /\ pc = [p \in Procs |-> Idle]
  /\ TLCSet(1, 1)

(* ------------------------------------------------------------------ reset *)

InitState(e) ==
  CASE e.kind = "sf"   -> [cur |-> [k \in {"a", "b", "c"} |-> 0], n |-> 0, vals |-> <<>>]
    [] e.kind = "lc"   -> [holder |-> [k \in {"a", "b", "c"} |-> -1]]
    [] e.kind = "lim"  -> [out |-> 0, n |-> e.n]
    [] e.kind = "tl"   -> [out |-> 0, n |-> e.n]
    [] e.kind = "pool" -> [idle |-> {}, live |-> {}, held |-> {}, fresh |-> {}, n |-> e.n, dead |-> {},
                            age |-> e.age, used |-> <<>>]     \* age: max idle age in ms (0 = none); used: r -> time of its last Put
    [] e.kind = "ref"  -> [ref |-> 0, cleaned |-> FALSE, cbs |-> 0]
    [] e.kind = "rm"   -> [res |-> [k \in {"a", "b", "c"} |-> 0], made |-> {}, closed |-> {}, fails |-> [k \in {"a", "b", "c"} |-> 0]]
    [] e.kind = "mr"   -> [cur |-> 0, gens |-> {}]
    [] e.kind = "spin" -> [owner |-> -1]
    [] e.kind = "og"   -> [taken |-> FALSE]
    [] e.kind = "dc"   -> [closing |-> FALSE]
    [] e.kind = "once" -> [runs |-> 0, running |-> FALSE]
    [] e.kind = "ir"   -> [res |-> 0, tried |-> FALSE, last |-> 0, every |-> e.every, err |-> 0]

\* a reset is only legal at quiescence: every call of the previous history has returned
Reset ==
  /\ Is("reset")
  /\ \A p \in Procs : pc[p] = Idle
  /\ kind' = Ev.kind
  /\ st' = InitState(Ev)
  /\ UNCHANGED pc
  /\ Consume

(* ------------------------------------------------------------------ SingleFlight (sf)
   st.cur[k]  : id of the execution currently registered for key k (0 = none)
   st.vals    : id -> result of the finished execution
   contract   : executions of one key never overlap; a call that registers while an
                execution is registered does not execute and returns that execution's
                result (fresh = FALSE); a call that registers when none is registered
                executes its own fn (fresh = TRUE); the owner unregisters before it returns,
                hence a call invoked after the owner returned executes afresh.            *)

SfInv ==
  /\ kind = "sf" /\ Is("inv") /\ pc[P] = Idle
  /\ SetPc(P, [s |-> "inv", k |-> Ev.k])
  /\ UNCHANGED <<kind, st>> /\ Consume

SfRegister(p) ==                      \* internal
  /\ kind = "sf" /\ pc[p].s = "inv"
  /\ LET k == pc[p].k IN
       IF st.cur[k] = 0
         THEN /\ st' = [st EXCEPT !.n = @ + 1, !.cur[k] = st.n + 1]
              /\ SetPc(p, [s |-> "owner", k |-> k, id |-> st.n + 1, ph |-> "reg", pan |-> FALSE])
         ELSE /\ SetPc(p, [s |-> "wait", k |-> k, id |-> st.cur[k]])
              /\ UNCHANGED st
  /\ UNCHANGED <<kind, l>>

SfFnB ==
  /\ kind = "sf" /\ Is("fnb") /\ pc[P].s = "owner" /\ pc[P].ph = "reg" /\ pc[P].k = Ev.k
  /\ SetPc(P, [pc[P] EXCEPT !.ph = "run"])
  /\ UNCHANGED <<kind, st>> /\ Consume

SfFnE ==
  /\ kind = "sf" /\ Is("fne") /\ pc[P].s = "owner" /\ pc[P].ph = "run"
  /\ st' = [st EXCEPT !.vals = (pc[P].id :> Ev.v) @@ @]
  /\ SetPc(P, [pc[P] EXCEPT !.ph = "ran"])
  /\ UNCHANGED kind /\ Consume

\* fn panicked (logged from a deferred function inside fn, then re-raised): the execution has
\* no result; the flight must still be unregistered and its waiters released (they see the
\* zero result, encoded 0); the owner's call ends by re-raising the panic.
SfFnP ==
  /\ kind = "sf" /\ Is("fnp") /\ pc[P].s = "owner" /\ pc[P].ph = "run"
  /\ st' = [st EXCEPT !.vals = (pc[P].id :> 0) @@ @]
  /\ SetPc(P, [pc[P] EXCEPT !.ph = "ran", !.pan = TRUE])
  /\ UNCHANGED kind /\ Consume

SfDelete(p) ==                        \* internal
  /\ kind = "sf" /\ pc[p].s = "owner" /\ pc[p].ph = "ran"
  /\ st' = [st EXCEPT !.cur[pc[p].k] = 0]
  /\ SetPc(p, [pc[p] EXCEPT !.ph = "del"])
  /\ UNCHANGED <<kind, l>>

SfRet ==
  /\ kind = "sf" /\ Is("ret")
  /\ \/ /\ pc[P].s = "owner" /\ pc[P].ph = "del" /\ ~pc[P].pan /\ Ev.pan = FALSE
        /\ Ev.v = st.vals[pc[P].id] /\ Ev.f = TRUE /\ Ev.x = TRUE
     \/ /\ pc[P].s = "owner" /\ pc[P].ph = "del" /\ pc[P].pan /\ Ev.pan = TRUE      \* re-raised
     \/ /\ pc[P].s = "wait" /\ pc[P].id \in DOMAIN st.vals /\ Ev.pan = FALSE
        /\ Ev.v = st.vals[pc[P].id] /\ Ev.f = FALSE /\ Ev.x = FALSE
  /\ SetPc(P, Idle)
  /\ UNCHANGED <<kind, st>> /\ Consume

(* ------------------------------------------------------------------ LockedCalls (lc)
   contract: every call executes its own fn exactly once and returns its own result;
             executions of one key never overlap.                                       *)

LcInv ==
  /\ kind = "lc" /\ Is("inv") /\ pc[P] = Idle
  /\ SetPc(P, [s |-> "inv", k |-> Ev.k])
  /\ UNCHANGED <<kind, st>> /\ Consume

LcFnB ==
  /\ kind = "lc" /\ Is("fnb") /\ pc[P].s = "inv" /\ pc[P].k = Ev.k
  /\ st.holder[Ev.k] = -1
  /\ st' = [st EXCEPT !.holder[Ev.k] = P]
  /\ SetPc(P, [s |-> "run", k |-> Ev.k])
  /\ UNCHANGED kind /\ Consume

LcFnE ==
  /\ kind = "lc" /\ Is("fne") /\ pc[P].s = "run" /\ st.holder[pc[P].k] = P
  /\ st' = [st EXCEPT !.holder[pc[P].k] = -1]
  /\ SetPc(P, [s |-> "ran", v |-> Ev.v, pan |-> FALSE])
  /\ UNCHANGED kind /\ Consume

LcFnP ==                               \* fn panicked: the key must be released all the same
  /\ kind = "lc" /\ Is("fnp") /\ pc[P].s = "run" /\ st.holder[pc[P].k] = P
  /\ st' = [st EXCEPT !.holder[pc[P].k] = -1]
  /\ SetPc(P, [s |-> "ran", v |-> 0, pan |-> TRUE])
  /\ UNCHANGED kind /\ Consume

LcRet ==
  /\ kind = "lc" /\ Is("ret") /\ pc[P].s = "ran" /\ Ev.v = pc[P].v /\ Ev.pan = pc[P].pan
  /\ SetPc(P, Idle)
  /\ UNCHANGED <<kind, st>> /\ Consume

(* ------------------------------------------------------------------ Limit (lim) / TimeoutLimit (tl)
   contract: 0 <= out <= n; Borrow succeeds only when out < n; TryBorrow fails only when
             out = n at its linearization point; Return with out = 0 is ErrLimitReturn;
             a timed Borrow may report a timeout only if its timeout really elapsed
             (logged `late` = elapsed >= timeout, measured by the driver).               *)

LimInv ==
  /\ kind \in {"lim", "tl"} /\ Is("inv") /\ pc[P] = Idle
  /\ SetPc(P, [s |-> "inv", op |-> Ev.op])
  /\ UNCHANGED <<kind, st>> /\ Consume

LimLin(p) ==                          \* internal: the linearization point of the call
  /\ kind \in {"lim", "tl"} /\ pc[p].s = "inv"
  /\ LET op == pc[p].op IN
     \/ /\ op \in {"borrow", "tborrow"} /\ st.out < st.n
        /\ st' = [st EXCEPT !.out = @ + 1] /\ SetPc(p, [s |-> "lin", r |-> 1])
     \/ /\ op = "try" /\ st.out < st.n
        /\ st' = [st EXCEPT !.out = @ + 1] /\ SetPc(p, [s |-> "lin", r |-> 1])
     \/ /\ op = "try" /\ st.out = st.n
        /\ UNCHANGED st /\ SetPc(p, [s |-> "lin", r |-> 0])
     \/ /\ op = "return" /\ st.out > 0
        /\ st' = [st EXCEPT !.out = @ - 1] /\ SetPc(p, [s |-> "lin", r |-> 1])
     \/ /\ op = "return" /\ st.out = 0
        /\ UNCHANGED st /\ SetPc(p, [s |-> "lin", r |-> 0])
  /\ UNCHANGED <<kind, l>>

LimRet ==
  /\ kind \in {"lim", "tl"} /\ Is("ret")
  /\ \/ pc[P].s = "lin" /\ Ev.r = pc[P].r
     \/ /\ kind = "tl" /\ pc[P].s = "inv" /\ pc[P].op = "tborrow"     \* timed out, no effect
        /\ Ev.r = 0 /\ Ev.late = TRUE
  /\ SetPc(P, Idle)
  /\ UNCHANGED <<kind, st>> /\ Consume

(* ------------------------------------------------------------------ Pool (pool)
   st.live: resources created and not destroyed; st.idle: put back; st.held: handed out.
   contract: |live| <= n; a resource is handed to at most one holder at a time; only a
             resource the pool created and that is idle (or was just created for this Get)
             is handed out; a destroyed resource is never handed out again.
   Put takes effect at its invocation (earliest possible), Get at its return (latest
   possible): every real history stays acceptable, a double hand-out does not.           *)

\* The create/destroy callbacks take no argument, so their events carry no process id: they
\* are attributed to "some Get in progress".
PoolGetInv ==
  /\ kind = "pool" /\ Is("inv") /\ Ev.op = "get" /\ pc[P] = Idle
  /\ SetPc(P, [s |-> "get"])
  /\ UNCHANGED <<kind, st>> /\ Consume

PoolCreate ==
  /\ kind = "pool" /\ Is("create") /\ (\E p \in Procs : pc[p].s = "get")
  /\ Ev.r \notin (st.live \cup st.dead)
  /\ Cardinality(st.live) < st.n
  /\ st' = [st EXCEPT !.live = @ \cup {Ev.r}, !.fresh = @ \cup {Ev.r}]
  /\ UNCHANGED <<kind, pc>> /\ Consume

PoolDestroy ==                         \* destroy callback runs inside some Get
  /\ kind = "pool" /\ Is("destroy") /\ (\E p \in Procs : pc[p].s = "get")
  /\ Ev.r \in st.idle
  \* (the statement forbids reusing a resource idle beyond its maximum age; it does not forbid
  \*  destroying a younger one, so no age condition here)
  /\ st' = [st EXCEPT !.idle = @ \ {Ev.r}, !.live = @ \ {Ev.r}, !.dead = @ \cup {Ev.r}]
  /\ UNCHANGED <<kind, pc>> /\ Consume

PoolGetRet ==
  /\ kind = "pool" /\ Is("ret") /\ Ev.op = "get" /\ pc[P].s = "get"
  /\ \/ /\ Ev.r \in st.fresh
        /\ st' = [st EXCEPT !.fresh = @ \ {Ev.r}, !.held = @ \cup {Ev.r}]
     \/ /\ Ev.r \in st.idle
        /\ ~(st.age > 0 /\ st.used[Ev.r] + st.age < Ev.now)   \* never reuse one idle beyond its maximum age
        /\ st' = [st EXCEPT !.idle = @ \ {Ev.r}, !.held = @ \cup {Ev.r}]
  /\ SetPc(P, Idle)
  /\ UNCHANGED kind /\ Consume

\* (`now` is the virtual clock, which the driver moves only while no call is in progress whenever
\* age > 0, so the time a Put stamps and the time a Get compares with are unambiguous)
PoolPutInv ==
  /\ kind = "pool" /\ Is("inv") /\ Ev.op = "put" /\ pc[P] = Idle
  /\ Ev.r \in st.held
  /\ st' = [st EXCEPT !.held = @ \ {Ev.r}, !.idle = @ \cup {Ev.r}, !.used = (Ev.r :> Ev.now) @@ @]
  /\ SetPc(P, [s |-> "put"])
  /\ UNCHANGED kind /\ Consume

PoolPutRet ==
  /\ kind = "pool" /\ Is("ret") /\ Ev.op = "put" /\ pc[P].s = "put"
  /\ SetPc(P, Idle)
  /\ UNCHANGED <<kind, st>> /\ Consume

(* ------------------------------------------------------------------ RefResource (ref)
   contract: Use succeeds iff not cleaned; the clean callback runs exactly once, at the
             Clean call that brings the use count to zero; afterwards Use is refused.
   The callback event `cleancb` is logged from inside clean(), i.e. under the resource's
   lock: it IS the linearization point of that Clean call.                               *)

RefInv ==
  /\ kind = "ref" /\ Is("inv") /\ pc[P] = Idle
  /\ SetPc(P, [s |-> "inv", op |-> Ev.op])
  /\ UNCHANGED <<kind, st>> /\ Consume

RefLin(p) ==                           \* internal
  /\ kind = "ref" /\ pc[p].s = "inv"
  /\ \/ /\ pc[p].op = "use" /\ ~st.cleaned
        /\ st' = [st EXCEPT !.ref = @ + 1] /\ SetPc(p, [s |-> "lin", r |-> 1])
     \/ /\ pc[p].op = "use" /\ st.cleaned
        /\ UNCHANGED st /\ SetPc(p, [s |-> "lin", r |-> 0])
     \/ /\ pc[p].op = "clean" /\ ~st.cleaned /\ st.ref # 1          \* not the last use
        /\ st' = [st EXCEPT !.ref = @ - 1] /\ SetPc(p, [s |-> "lin", r |-> 1])
     \/ /\ pc[p].op = "clean" /\ st.cleaned
        /\ UNCHANGED st /\ SetPc(p, [s |-> "lin", r |-> 1])
  /\ UNCHANGED <<kind, l>>

RefCleanCb ==                          \* the last use is given up: callback, exactly once
  /\ kind = "ref" /\ Is("cleancb")        \* (no process id: the callback takes no argument)
  /\ ~st.cleaned /\ st.ref = 1
  /\ \E p \in Procs :
        /\ pc[p].s = "inv" /\ pc[p].op = "clean"
        /\ SetPc(p, [s |-> "lin", r |-> 1])
  /\ st' = [st EXCEPT !.ref = 0, !.cleaned = TRUE, !.cbs = @ + 1]
  /\ UNCHANGED kind /\ Consume

RefRet ==
  /\ kind = "ref" /\ Is("ret") /\ pc[P].s = "lin" /\ Ev.r = pc[P].r
  /\ SetPc(P, Idle)
  /\ UNCHANGED <<kind, st>> /\ Consume

(* ------------------------------------------------------------------ ResourceManager (rm)
   contract: at most one successful create per key (while the manager is open), every Get
             of that key returns that resource; a Get returns an error only if a failed
             create ran during its call; Close closes every resource exactly once.        *)

RmInv ==
  /\ kind = "rm" /\ Is("inv") /\ pc[P] = Idle
  /\ SetPc(P, IF Ev.op = "get"
                 THEN [s |-> "inv", op |-> "get", k |-> Ev.k, f0 |-> st.fails[Ev.k], failed |-> FALSE,
                       \* a failed create of the same key whose Get has not returned yet: this call
                       \* may still join that flight and share its error
                       j |-> (\E q \in Procs : pc[q].s = "inv" /\ pc[q].op = "get" /\ pc[q].k = Ev.k /\ pc[q].failed)]
                 ELSE [s |-> "inv", op |-> Ev.op])
  /\ UNCHANGED <<kind, st>> /\ Consume

RmCreate ==
  /\ kind = "rm" /\ Is("create") /\ pc[P].s = "inv" /\ pc[P].op = "get" /\ pc[P].k = Ev.k
  /\ st.res[Ev.k] = 0                                   \* never a second resource for a key
  /\ IF Ev.r > 0
       THEN /\ st' = [st EXCEPT !.res[Ev.k] = Ev.r, !.made = @ \cup {Ev.r}]
            /\ UNCHANGED pc
       ELSE /\ st' = [st EXCEPT !.fails[Ev.k] = @ + 1]
            /\ SetPc(P, [pc[P] EXCEPT !.failed = TRUE])
  /\ UNCHANGED kind /\ Consume

RmGetRet ==
  /\ kind = "rm" /\ Is("ret") /\ Ev.op = "get" /\ pc[P].s = "inv" /\ pc[P].op = "get"
  /\ \/ Ev.r > 0 /\ st.res[pc[P].k] = Ev.r
     \/ Ev.r = 0 /\ (st.fails[pc[P].k] > pc[P].f0 \/ pc[P].j)   \* a create of this key failed during / around the call
  /\ SetPc(P, Idle)
  /\ UNCHANGED <<kind, st>> /\ Consume

RmClosed ==
  /\ kind = "rm" /\ Is("closed") /\ pc[P].s = "inv" /\ pc[P].op = "close"
  /\ Ev.r \in st.made /\ Ev.r \notin st.closed
  /\ st' = [st EXCEPT !.closed = @ \cup {Ev.r}]
  /\ UNCHANGED <<kind, pc>> /\ Consume

RmCloseRet ==
  /\ kind = "rm" /\ Is("ret") /\ Ev.op = "close" /\ pc[P].s = "inv" /\ pc[P].op = "close"
  /\ st.closed = st.made                                 \* all of them, each once
  /\ SetPc(P, Idle)
  /\ UNCHANGED <<kind, st>> /\ Consume

(* ------------------------------------------------------------------ ManagedResource (mr)
   contract: Take generates only when there is no current resource and returns a resource
             that was current at some moment of the call; MarkBroken(x) clears the current
             resource only if it is x.                                                    *)

MrInv ==
  /\ kind = "mr" /\ Is("inv") /\ pc[P] = Idle
  /\ SetPc(P, IF Ev.op = "take" THEN [s |-> "take", seen |-> {st.cur}]
                               ELSE [s |-> "mark", x |-> Ev.r, done |-> FALSE])
  /\ UNCHANGED <<kind, st>> /\ Consume

MrGen ==                                \* generate callback, under the write lock
  /\ kind = "mr" /\ Is("gen") /\ (\E p \in Procs : pc[p].s = "take")
  /\ st.cur = 0 /\ Ev.r \notin st.gens
  /\ st' = [st EXCEPT !.cur = Ev.r, !.gens = @ \cup {Ev.r}]
  /\ pc' = [q \in Procs |-> IF pc[q].s = "take" THEN [pc[q] EXCEPT !.seen = @ \cup {Ev.r}] ELSE pc[q]]
  /\ UNCHANGED kind /\ Consume

MrMarkLin(p) ==                         \* internal
  /\ kind = "mr" /\ pc[p].s = "mark" /\ ~pc[p].done
  /\ st' = IF st.cur = pc[p].x THEN [st EXCEPT !.cur = 0] ELSE st
  /\ SetPc(p, [pc[p] EXCEPT !.done = TRUE])
  /\ UNCHANGED <<kind, l>>

MrRet ==
  /\ kind = "mr" /\ Is("ret")
  /\ \/ pc[P].s = "take" /\ Ev.r # 0 /\ Ev.r \in pc[P].seen
     \/ pc[P].s = "mark" /\ pc[P].done
  /\ SetPc(P, Idle)
  /\ UNCHANGED <<kind, st>> /\ Consume

(* ------------------------------------------------------------------ SpinLock / Barrier (spin)
   `enter` is logged after Lock()/a successful TryLock() returned (or first thing inside
   Guard's fn), `exit` before Unlock(), `unl` after Unlock() returned: critical sections
   (enter..exit) never overlap.  A failing
   TryLock is legal only if another process was acquiring or inside during the call.     *)

Busy(p) == \E q \in Procs \ {p} : pc[q].s \in {"acq", "try", "in", "rel"}

SpinInv ==
  /\ kind = "spin" /\ Is("inv") /\ pc[P] = Idle
  /\ pc' = [q \in Procs |->
              IF q = P THEN [s |-> IF Ev.op = "try" THEN "try" ELSE "acq", busy |-> Busy(P)]
              ELSE IF pc[q].s = "try" THEN [pc[q] EXCEPT !.busy = TRUE] ELSE pc[q]]
  /\ UNCHANGED <<kind, st>> /\ Consume

SpinEnter ==
  /\ kind = "spin" /\ Is("enter") /\ pc[P].s \in {"acq", "try"}
  /\ st.owner = -1
  /\ st' = [st EXCEPT !.owner = P]
  /\ SetPc(P, [s |-> "in"])
  /\ UNCHANGED kind /\ Consume

SpinTryFail ==
  /\ kind = "spin" /\ Is("tryfail") /\ pc[P].s = "try"
  /\ pc[P].busy \/ Busy(P)
  /\ SetPc(P, Idle)
  /\ UNCHANGED <<kind, st>> /\ Consume

SpinExit ==
  /\ kind = "spin" /\ Is("exit") /\ pc[P].s = "in" /\ st.owner = P
  /\ st' = [st EXCEPT !.owner = -1]
  /\ SetPc(P, [s |-> "rel"])          \* `exit` is logged BEFORE Unlock(): the lock is still held
  /\ UNCHANGED kind /\ Consume

SpinUnlocked ==                        \* logged after Unlock() / Guard() returned
  /\ kind = "spin" /\ Is("unl") /\ pc[P].s = "rel"
  /\ SetPc(P, Idle)
  /\ UNCHANGED <<kind, st>> /\ Consume

(* ------------------------------------------------------------------ OnceGuard (og)
   contract: exactly one Take returns true; a Take returns false only if the guard was
             taken or another Take was in progress during the call.                       *)

OgInv ==
  /\ kind = "og" /\ Is("inv") /\ pc[P] = Idle
  /\ pc' = [q \in Procs |->
              IF q = P THEN [s |-> "take", other |-> (\E r \in Procs \ {P} : pc[r].s = "take")]
              ELSE IF pc[q].s = "take" THEN [pc[q] EXCEPT !.other = TRUE] ELSE pc[q]]
  /\ UNCHANGED <<kind, st>> /\ Consume

OgRet ==
  /\ kind = "og" /\ Is("ret") /\ pc[P].s = "take"
  /\ IF Ev.r = 1 THEN ~st.taken /\ st' = [st EXCEPT !.taken = TRUE]
                 ELSE (st.taken \/ pc[P].other) /\ UNCHANGED st
  /\ SetPc(P, Idle)
  /\ UNCHANGED kind /\ Consume

(* ------------------------------------------------------------------ DoneChan (dc)
   contract: Close is idempotent (never panics: every Close returns); a waiter on Done()
             is released only after some Close was invoked, and every waiter is released. *)

DcInv ==
  /\ kind = "dc" /\ Is("inv") /\ pc[P] = Idle
  /\ st' = IF Ev.op = "close" THEN [st EXCEPT !.closing = TRUE] ELSE st
  /\ SetPc(P, [s |-> "inv", op |-> Ev.op])
  /\ UNCHANGED kind /\ Consume

DcRet ==
  /\ kind = "dc" /\ Is("ret") /\ pc[P].s = "inv"
  /\ pc[P].op = "wait" => st.closing
  /\ SetPc(P, Idle)
  /\ UNCHANGED <<kind, st>> /\ Consume

(* ------------------------------------------------------------------ Once (once)
   contract: the wrapped function runs exactly once however many callers race, and no
             caller returns before that run has finished.                                 *)

OnceInv ==
  /\ kind = "once" /\ Is("inv") /\ pc[P] = Idle
  /\ SetPc(P, [s |-> "inv"])
  /\ UNCHANGED <<kind, st>> /\ Consume

OnceFnB ==
  /\ kind = "once" /\ Is("fnb") /\ (\E p \in Procs : pc[p].s = "inv") /\ st.runs = 0 /\ ~st.running
  /\ st' = [st EXCEPT !.running = TRUE]
  /\ UNCHANGED <<kind, pc>> /\ Consume

OnceFnE ==
  /\ kind = "once" /\ Is("fne") /\ (\E p \in Procs : pc[p].s = "inv") /\ st.running
  /\ st' = [st EXCEPT !.running = FALSE, !.runs = 1]
  /\ UNCHANGED <<kind, pc>> /\ Consume

OnceRet ==
  /\ kind = "once" /\ Is("ret") /\ pc[P].s = "inv" /\ st.runs = 1 /\ ~st.running
  /\ SetPc(P, Idle)
  /\ UNCHANGED <<kind, st>> /\ Consume

(* ------------------------------------------------------------------ ImmutableResource (ir)
   (sequential histories under the virtual clock)
   contract: once fetched successfully the resource is never fetched again and every Get returns
             it; after a failed fetch the next fetch happens only when more than `every` ms of
             virtual time have passed since the last attempt; meanwhile Get reports that error.  *)

IrInv ==
  /\ kind = "ir" /\ Is("inv") /\ pc[P] = Idle
  /\ SetPc(P, [s |-> "get", now |-> Ev.now, fetched |-> FALSE])
  /\ UNCHANGED <<kind, st>> /\ Consume

IrFetch ==
  /\ kind = "ir" /\ Is("fetch") /\ pc[P].s = "get" /\ ~pc[P].fetched
  /\ st.res = 0                                             \* never again after a success
  /\ (~st.tried \/ st.last + st.every < pc[P].now)           \* not before the refresh interval passed
  /\ st' = [st EXCEPT !.tried = TRUE, !.last = pc[P].now,
                       !.res = IF Ev.v > 0 THEN Ev.v ELSE 0, !.err = IF Ev.v > 0 THEN 0 ELSE Ev.v]
  /\ SetPc(P, [pc[P] EXCEPT !.fetched = TRUE])
  /\ UNCHANGED kind /\ Consume

IrRet ==
  /\ kind = "ir" /\ Is("ret") /\ pc[P].s = "get"
  /\ IF st.res # 0 THEN Ev.v = st.res ELSE (st.tried /\ Ev.v = st.err)
  \* a Get that finds nothing cached and is allowed to fetch must have fetched
  /\ (st.res = 0 /\ ~pc[P].fetched) => (st.tried /\ ~(st.last + st.every < pc[P].now))
  /\ SetPc(P, Idle)
  /\ UNCHANGED <<kind, st>> /\ Consume

(* ------------------------------------------------------------------ next-state relation *)

Logged ==
  \/ Reset
  \/ SfInv \/ SfFnB \/ SfFnE \/ SfFnP \/ SfRet
  \/ LcInv \/ LcFnB \/ LcFnE \/ LcFnP \/ LcRet
  \/ LimInv \/ LimRet
  \/ PoolGetInv \/ PoolCreate \/ PoolDestroy \/ PoolGetRet \/ PoolPutInv \/ PoolPutRet
  \/ RefInv \/ RefCleanCb \/ RefRet
  \/ RmInv \/ RmCreate \/ RmGetRet \/ RmClosed \/ RmCloseRet
  \/ MrInv \/ MrGen \/ MrRet
  \/ SpinInv \/ SpinEnter \/ SpinTryFail \/ SpinExit \/ SpinUnlocked
  \/ OgInv \/ OgRet
  \/ DcInv \/ DcRet
  \/ OnceInv \/ OnceFnB \/ OnceFnE \/ OnceRet
  \/ IrInv \/ IrFetch \/ IrRet

Internal ==
  \E p \in Procs : SfRegister(p) \/ SfDelete(p) \/ LimLin(p) \/ RefLin(p) \/ MrMarkLin(p)

Next == Logged \/ Internal

Spec == Init /\ [][Next]_vars

(* ------------------------------------------------------------------ invariants evaluated on
   every state of every implementation trace                                              *)

Inv_LimitBound == kind \in {"lim", "tl"} => (st.out >= 0 /\ st.out <= st.n)
Inv_PoolBound  == kind = "pool" => /\ Cardinality(st.live) <= st.n
                                   /\ st.idle \cap st.held = {}
                                   /\ (st.idle \cup st.held \cup st.fresh) \subseteq st.live
Inv_RefOnce    == kind = "ref" => st.cbs <= 1 /\ (st.cleaned <=> st.cbs = 1)
Inv_SfOneOwner == kind = "sf" =>
                    \A p, q \in Procs : (p # q /\ pc[p].s = "owner" /\ pc[q].s = "owner"
                                         /\ pc[p].ph # "del" /\ pc[q].ph # "del") => pc[p].k # pc[q].k

(* ------------------------------------------------------------------ acceptance *)

HighWater == IF l > TLCGet(1) THEN TLCSet(1, l) ELSE TRUE     \* used as CONSTRAINT (always TRUE)
Accepted  == /\ PrintT(<<"VREG", "hw", TLCGet(1)>>)
             /\ TLCGet(1) = Len(TraceLog) + 1

=============================================================================
