------------------------------ MODULE Breaker ------------------------------
(***************************************************************************)
(* Abstract circuit breaker (property C01; lib/breaker, and the built-in   *)
(* integrations that sit on top of it).                                    *)
(*                                                                         *)
(* State = what the statement talks about: for every breaker name the      *)
(* outcomes recorded over the trailing window.  The window has the         *)
(* resolution of the implementation's buckets: time is counted in ticks,   *)
(* Q ticks make one bucket, Size buckets make the window (code: 40 buckets *)
(* of 250 ms = 10 s), buckets are aligned to the instant the breaker was   *)
(* created.  A window is a sparse set of records [a, s, c]:                *)
(*   a = age of the bucket in buckets (0 = the bucket containing "now"),   *)
(*   s = successes, c = outcomes recorded in that bucket.                  *)
(* A recorded outcome is "in the trailing window" while a < Size.          *)
(* (This is the bucket function indexed by absolute bucket number, written *)
(* relative to the current bucket so that the state space is finite        *)
(* without bounding time.)                                                 *)
(*                                                                         *)
(* A call is described by a "kind" record [api, oc, n]: through which API  *)
(* or integration it is issued and what the protected function does.  The  *)
(* table Effect says whether the statement counts it as success (1) or     *)
(* failure (0); for the integrations this is the statement's list of       *)
(* benign outcomes.                                                        *)
(*                                                                         *)
(* The random gate is an explicit coin: a call is rejected iff the window  *)
(* is Rejectable *and* the coin says so; the probability the coin is       *)
(* consulted with is Num/Den (exactly max(0,(total-Prot-k*succ)/(total+1)))*)
(*                                                                         *)
(* `out` is observation-only (VIEW hides it in model checking).            *)
(***************************************************************************)
EXTENDS Integers, Sequences, FiniteSets, TLC, FiniteSetsExt

CONSTANTS Names,     \* breaker names
          RegNames,  \* the names that live in the process-wide registry (NoBreakerFor applies)
          Size,      \* buckets per window          (code: 40)
          Q,         \* ticks per bucket            (1 tick = 62.5 ms when Q = 4)
          K2,        \* 2*k                         (code: k = 1.5 -> 3)
          Prot,      \* protection                  (code: 5)
          GrpcUnwraps, \* BOOLEAN: status.Code of the grpc library in use looks through %w wrapping
          Kinds      \* the call kinds offered by Next (subset of AllKinds)

VARIABLES st,        \* [Names -> [mode, phase, win]]
          out

vars == <<st, out>>
core == <<st>>

(* ---------------------------------------------------------------- call kinds *)

Kd(api, oc, n) == [api |-> api, oc |-> oc, n |-> n]

\* the core API: Do / DoWithAcceptable / DoWithFallback / DoWithFallbackAcceptable / Allow+promise
\* oc: what the protected function does: ok = returns nil, acc / err = returns one of two distinct
\* errors, panic; accept/reject = promise calls.
\* n : the caller's acceptable-predicate, as the set of the three possible results it accepts
\*     (bit 1 = accepts nil, bit 2 = accepts the error "acc", bit 4 = accepts the error "err"):
\*     an arbitrary predicate over the results that can occur.  3 = "nil or the error acc" (the
\*     usual shape), 7 = accepts everything, 0 = nothing, 2 = one specific error and NOT nil,
\*     6 = any error but not nil (api/httpc hands the breaker a predicate that rejects nil when the
\*     response is a 5xx).  Do / DoWithFallback take no predicate: theirs is "err == nil" (n unused).
\*     "success iff its error satisfies the caller's acceptable-predicate": nothing else decides,
\*     in particular not whether the error is nil.  A panic never reaches the predicate: failure.
\* Allow + promise (api = "allow"): oc = accept | reject is what the caller reports through the promise;
\* for reject, n is the class of the free-text REASON handed to Promise.Reject(reason):
\*     0 = a short text, 1 = the empty string (the interface documents the call as "Promise.Reject()"),
\*     2 = a long text (several KiB), 3 = a text with line breaks, format verbs and a NUL byte.
\*     The reason is diagnostic only (it feeds the error report of the logging wrapper): "every
\*     admitted call records exactly one outcome" - Reject is one failure WHATEVER the reason, so
\*     CoreEffect does not look at n.  (accept carries no argument: n = 0.)
\* The breaker NAME carries how the instance came into being (the drivers read it off the first
\* letter): "p.." = breaker.New(WithName(..)), "q.." = breaker.New() (generated name), anything
\* else = the process-wide registry (breaker.Get(name) / the package-level Do* functions).  All
\* three are the same abstract breaker: nothing in this specification depends on the name.
PredBit(oc) == CASE oc = "ok" -> 1 [] oc = "acc" -> 2 [] oc = "err" -> 4 [] OTHER -> 0
PredOf(k) == IF k.api \in {"do", "dofb"} THEN 1 ELSE k.n
Accepts(mask, oc) == PredBit(oc) # 0 /\ (mask \div PredBit(oc)) % 2 = 1
CoreEffect(k) ==
  IF k.api = "allow" THEN (IF k.oc = "accept" THEN 1 ELSE 0)
  ELSE IF Accepts(PredOf(k), k.oc) THEN 1 ELSE 0

SeqRange(f) == {f[i] : i \in DOMAIN f}

\* every (predicate, result) of the two forms that take a predicate (64 kinds; the registry forms
\* breaker.DoWithAcceptable(name, ..) / DoWithFallbackAcceptable(name, ..) are the same kinds issued
\* through the registry: the driver alternates)
PredApis == <<"doacc", "dofbacc">>
PredOcs  == <<"ok", "acc", "err", "panic">>
AllPredKinds == [i \in 1..64 |-> Kd(PredApis[((i - 1) % 2) + 1], PredOcs[(((i - 1) \div 2) % 4) + 1], (i - 1) \div 8)]
PredKindsSucc == SelectSeq(AllPredKinds, LAMBDA k : CoreEffect(k) = 1)
PredKindsFail == SelectSeq(AllPredKinds, LAMBDA k : CoreEffect(k) = 0)

\* the kind sequences the generator rotates through: the usual shapes first, then every other predicate
BaseKindsSucc == <<Kd("do", "ok", 0), Kd("doacc", "ok", 3), Kd("doacc", "acc", 3), Kd("dofb", "ok", 0),
                   Kd("dofbacc", "ok", 3), Kd("dofbacc", "acc", 3), Kd("allow", "accept", 0)>>
BaseKindsFail == <<Kd("do", "err", 0), Kd("do", "panic", 0), Kd("doacc", "err", 3), Kd("doacc", "panic", 3),
                   Kd("dofb", "err", 0), Kd("dofb", "panic", 0), Kd("dofbacc", "err", 3),
                   Kd("dofbacc", "panic", 3), Kd("allow", "reject", 0), Kd("do", "acc", 0), Kd("dofb", "acc", 0),
                   Kd("allow", "reject", 1), Kd("allow", "reject", 2), Kd("allow", "reject", 3)>>
\* the promise family: Accept and Reject with every class of reason
PromiseKindsSucc == <<Kd("allow", "accept", 0)>>
PromiseKindsFail == [i \in 1..4 |-> Kd("allow", "reject", i - 1)]    \* reason classes 0..3

CoreKindsSucc == BaseKindsSucc \o SelectSeq(PredKindsSucc, LAMBDA k : k.n # 3)
CoreKindsFail == BaseKindsFail \o SelectSeq(PredKindsFail, LAMBDA k : k.n # 3)
CoreKinds == SeqRange(CoreKindsSucc) \cup SeqRange(CoreKindsFail)

\* gRPC status codes the statement does NOT declare benign
GrpcBad == {4, 12, 13, 14, 15}   \* DeadlineExceeded, Unimplemented, Internal, Unavailable, DataLoss
GrpcApis == {"grpc_codes", "grpc_client", "grpc_unary", "grpc_stream"}
GrpcNames == <<"OK", "Canceled", "Unknown", "InvalidArgument", "DeadlineExceeded", "NotFound", "AlreadyExists",
               "PermissionDenied", "ResourceExhausted", "FailedPrecondition", "Aborted", "OutOfRange", "Unimplemented",
               "Internal", "Unavailable", "DataLoss", "Unauthenticated">>
\* What a handler / invoker returns is an error VALUE; its gRPC code is the one grpc's
\* status.Code / status.Convert assigns to it.  For the gRPC rows  n = 100 * kind + c :
\*   kind 0  status.Error(c, ..)  (c = 0: nil)                         code c
\*   kind 1  fmt.Errorf("..%w", status.Error(c, ..))                   code c if the grpc library in
\*           use unwraps (GrpcUnwraps, a fact of the library version: >= 1.55), else Unknown
\*   kind 2  a plain Go error (errors.New)                              Unknown
\*   kind 3  context.Canceled, as the plain error it is                 Unknown
\*   kind 4  context.DeadlineExceeded, as the plain error it is         Unknown
\*   kind 5  a foreign error type with a GRPCStatus() method of code c  code c
\* Unknown is not one of the five codes: a service that only returns business errors (plain Go
\* errors) is never cut off.  The drivers refuse (harness error) to run a row for which the grpc
\* library they are linked with assigns another code than this table.
GrpcCode(n) ==
  LET kind == n \div 100
      c == n % 100
  IN CASE kind \in {0, 5} -> c
       [] kind = 1       -> IF GrpcUnwraps THEN c ELSE 2
       [] OTHER          -> 2
\* sqlx operations x connection flavour: plain (NewConn/NewConnFromDB), "@mysql" (the accept option
\* every NewMySQL connection carries), "@custom" (a user-supplied accept option that accepts
\* nothing extra).  An accept option may only ADD acceptable errors: the statement's benign
\* outcomes are benign for every flavour.
SqlApis == {"sql_exec", "sql_query", "sql_transact", "sql_prepare",
            "sql_exec@mysql", "sql_query@mysql", "sql_transact@mysql", "sql_prepare@mysql",
            "sql_exec@custom", "sql_query@custom", "sql_transact@custom", "sql_prepare@custom"}
SqlBenign == {"nil", "norows", "txdone", "canceled"}
RedisBenign == {"nil", "rednil", "canceled"}

\* 1 = the statement counts the outcome as success / benign, 0 = failure
Effect(k) ==
  CASE k.api = "http"        -> IF k.n < 500 THEN 1 ELSE 0
    [] k.api = "httpc"       -> IF k.oc = "refused" THEN 0 ELSE IF k.n < 500 THEN 1 ELSE 0
    [] k.api \in GrpcApis    -> IF GrpcCode(k.n) \in GrpcBad THEN 0 ELSE 1
    [] k.api \in SqlApis     -> IF k.oc \in SqlBenign THEN 1 ELSE 0
    [] k.api = "redis"       -> IF k.oc \in RedisBenign THEN 1 ELSE 0
    [] OTHER                 -> CoreEffect(k)

HasFallback(k) == k.api \in {"dofb", "dofbacc"}

\* what the caller gets back from an admitted / a rejected call
\* (gRPC rows: the error comes back unchanged; the drivers label it with the code grpc assigns)
RetAdmitted(k) ==
  CASE k.api = "allow"     -> "nil"
    [] k.api \in GrpcApis  -> GrpcNames[GrpcCode(k.n) + 1]
    [] OTHER               -> k.oc
RetRejected(k) == IF HasFallback(k) THEN "fb" ELSE "unavail"

(* ---------------------------------------------------------------- windows *)

Succ(w)  == FoldSet(LAMBDA r, acc : acc + r.s, 0, w)
Total(w) == FoldSet(LAMBDA r, acc : acc + r.c, 0, w)

\* k whole buckets pass
Shift(w, k) == {[r EXCEPT !.a = r.a + k] : r \in {x \in w : x.a + k < Size}}

\* record n outcomes of effect e (e = 1 success, 0 failure) in the current bucket
AddN(w, e, n) ==
  IF n = 0 THEN w
  ELSE IF \E r \in w : r.a = 0
         THEN {IF r.a = 0 THEN [r EXCEPT !.s = r.s + e * n, !.c = r.c + n] ELSE r : r \in w}
         ELSE w \cup {[a |-> 0, s |-> e * n, c |-> n]}

Rejectable(s, t) == 2 * (t - Prot) > K2 * s          \* <=> dropRatio > 0
Num(s, t) == 2 * (t - Prot) - K2 * s                 \* dropRatio = Num / Den
Den(t) == 2 * (t + 1)

Fresh   == [mode |-> "none",   phase |-> 0, win |-> {}]
Created == [mode |-> "google", phase |-> 0, win |-> {}]
Nop     == [mode |-> "nop",    phase |-> 0, win |-> {}]

\* a breaker comes into being at its first use; its buckets are aligned to that instant
Touch(b) == IF b.mode = "none" THEN Created ELSE b

AdvanceB(b, d) ==
  IF b.mode # "google" THEN b
  ELSE [b EXCEPT !.phase = (b.phase + d) % Q, !.win = Shift(b.win, (b.phase + d) \div Q)]

\* one call of kind k on breaker b (already touched) with the coin's answer
CallOn(b, k, coin) ==
  LET s == Succ(b.win)
      t == Total(b.win)
      rj == b.mode = "google" /\ Rejectable(s, t)
      rejected == rj /\ coin
  IN [rej |-> rejected,
      con |-> rj,                                   \* the coin is consulted iff dropRatio > 0
      num |-> IF rj THEN Num(s, t) ELSE 0,
      den |-> IF rj THEN Den(t) ELSE 0,
      req |-> IF rejected THEN 0 ELSE 1,            \* the protected function / promise callback ran
      fb  |-> IF rejected /\ HasFallback(k) THEN 1 ELSE 0,  \* fallback ran, with ErrServiceUnavailable
      ret |-> IF rejected THEN RetRejected(k) ELSE RetAdmitted(k),
      b   |-> IF rejected \/ b.mode = "nop" THEN b ELSE [b EXCEPT !.win = AddN(b.win, Effect(k), 1)]]

(* ---------------------------------------------------------------- actions *)

TypeOK ==
  /\ DOMAIN st = Names
  /\ \A n \in Names :
        /\ st[n].mode \in {"none", "google", "nop"}
        /\ st[n].phase \in 0..(Q - 1)
        /\ \A r \in st[n].win : r.a \in 0..(Size - 1) /\ r.c >= 1 /\ r.s \in 0..r.c
        /\ \A r1, r2 \in st[n].win : r1.a = r2.a => r1 = r2
        /\ st[n].mode # "google" => st[n].win = {} /\ st[n].phase = 0

Init ==
  /\ st = [n \in Names |-> Fresh]
  /\ out = [op |-> "init"]

Call(n, k, coin) ==
  LET r == CallOn(Touch(st[n]), k, coin)
  IN /\ st' = [st EXCEPT ![n] = r.b]
     /\ out' = [op |-> "call", name |-> n, k |-> k, coin |-> coin, rej |-> r.rej, con |-> r.con,
                num |-> r.num, den |-> r.den, req |-> r.req, fb |-> r.fb, ret |-> r.ret]

Advance(d) ==
  /\ st' = [n \in Names |-> AdvanceB(st[n], d)]
  /\ out' = [op |-> "adv", d |-> d]

\* breaker.NoBreakerFor(name): from now on the name is never cut off and nothing is recorded
Disable(n) ==
  /\ n \in RegNames
  /\ st' = [st EXCEPT ![n] = Nop]
  /\ out' = [op |-> "disable", name |-> n]

Next ==
  \/ \E n \in Names, k \in Kinds, coin \in BOOLEAN : Call(n, k, coin)
  \/ \E d \in 1..(Size * Q + 1) : Advance(d)
  \/ \E n \in RegNames : Disable(n)

Spec == Init /\ [][Next]_vars

(* ---------------------------------------------------------------- the property *)

S(n) == Succ(st[n].win)
T(n) == Total(st[n].win)
S1(n) == Succ(st'[n].win)
T1(n) == Total(st'[n].win)
IsCall == out'.op = "call"

\* "rejects a call only when, over the trailing window, (total - 5) exceeds 1.5 x successes"
RejectOnlyOnExcess ==
  [][IsCall /\ out'.rej => st[out'.name].mode = "google" /\ 2 * (T(out'.name) - Prot) > K2 * S(out'.name)]_vars

\* "a dependency that has only succeeded ... is never cut off"
OnlySuccessNeverRejectable ==
  \A n \in Names : T(n) = S(n) => ~Rejectable(S(n), T(n))

\* "... or whose failures have aged out of that window": a full window of time empties the record,
\* and an empty record is not rejectable
AgedOut ==
  [][out'.op = "adv" /\ out'.d >= Size * Q => \A n \in Names : T1(n) = 0 /\ ~Rejectable(S1(n), T1(n))]_vars

\* "one that keeps failing is cut off with probability approaching 1": with no success in the
\* window the probability handed to the coin is (t-Prot)/(t+1), increasing in t, limit 1
KeepsFailing ==
  [][IsCall /\ S(out'.name) = 0 /\ T(out'.name) > Prot /\ st[out'.name].mode = "google"
       => out'.con /\ out'.num = 2 * (T(out'.name) - Prot) /\ out'.den = 2 * (T(out'.name) + 1)]_vars

\* "a rejected call never runs the protected function (its fallback, if any, receives
\* ErrServiceUnavailable)" and records nothing
RejectedRunsNothing ==
  [][IsCall /\ out'.rej =>
        /\ out'.req = 0
        /\ out'.fb = (IF HasFallback(out'.k) THEN 1 ELSE 0)
        /\ out'.ret \in {"fb", "unavail"}
        /\ st' = st]_vars

\* "every admitted call records exactly one outcome: success iff ... , failure on ... a panic"
AdmittedRecordsOne ==
  [][IsCall /\ ~out'.rej /\ st'[out'.name].mode = "google" =>
        /\ out'.req = 1 /\ out'.fb = 0
        /\ T1(out'.name) = T(out'.name) + 1
        /\ S1(out'.name) = S(out'.name) + Effect(out'.k)
        /\ \A m \in Names \ {out'.name} : st'[m] = st[m]]_vars

\* "outcomes the built-in integrations declare benign never move a breaker towards open":
\* a success never increases the numerator of the drop ratio
BenignNeverTowardsOpen ==
  [][IsCall /\ Effect(out'.k) = 1 => Num(S1(out'.name), T1(out'.name)) <= Num(S(out'.name), T(out'.name))]_vars

\* a disabled name is never cut off
NopNeverRejects ==
  [][IsCall /\ st[out'.name].mode = "nop" => ~out'.rej /\ ~out'.con /\ out'.req = 1]_vars

=============================================================================
