---------------------------- MODULE RedisKVGen ----------------------------
(***************************************************************************)
(* Behaviour generator for RedisKV.tla (spec -> code replay, C12).         *)
(* A behaviour is a sequence of MaxLen commands (or clock steps), each     *)
(* with the reply the model predicts, followed by the model's final        *)
(* keyspace (type, value and remaining TTL of every key).  The Go driver   *)
(* executes it through redis.Redis and through kv.Store on 1..3 shards and *)
(* only compares.                                                          *)
(***************************************************************************)
EXTENDS RedisKV, Json

CONSTANTS MaxLen,
          CtxFrom     \* 0: no context dimension; i > 0: from step i on only Ctx-form calls with a dead context

VARIABLES hist, fin

gvars == <<vars, hist, fin>>

GInit == Init /\ hist = <<>> /\ fin = FALSE

\* (the single closing step makes TLC's simulator print a trace once, not once per possible last command)
GNext ==
  \/ /\ Len(hist) < MaxLen
     /\ IF CtxFrom > 0 /\ Len(hist) + 1 >= CtxFrom THEN CtxNext ELSE PlainNext(MaxLen - Len(hist))
     /\ ~(out.c.op = "advance" /\ out'.c.op = "advance")
     /\ hist' = Append(hist, out')
     /\ UNCHANGED fin
  \/ /\ Len(hist) = MaxLen /\ ~fin /\ pipe.n = 0
     /\ fin' = TRUE
     /\ UNCHANGED <<vars, hist>>

GSpec == GInit /\ [][GNext]_gvars

\* the keyspace as the driver can read it from the servers
Snap(k) ==
  LET ttl == IF exp[k] = 0 THEN 0 - 1 ELSE exp[k] - clock IN
  CASE T(k) = "none" -> [k |-> k, t |-> "none"]
    [] T(k) = "str"  -> [k |-> k, t |-> "str", ttl |-> ttl, s |-> SRep(ks[k])]
    [] T(k) = "hll"  -> [k |-> k, t |-> "hll", ttl |-> ttl, n |-> Cardinality(PF(k))]
    [] T(k) = "hash" -> [k |-> k, t |-> "hash", ttl |-> ttl,
                         h |-> [i \in 1..Cardinality(Fields(H(k))) |->
                                  [f |-> Sorted(Fields(H(k)))[i], v |-> H(k)[Sorted(Fields(H(k)))[i]]]]]
    [] T(k) = "list" -> [k |-> k, t |-> "list", ttl |-> ttl, l |-> ks[k].l]
    [] T(k) = "set"  -> [k |-> k, t |-> "set", ttl |-> ttl, m |-> Sorted(S(k))]
    [] T(k) = "zset" -> [k |-> k, t |-> "zset", ttl |-> ttl, z |-> ZPairs(Z(k), ZAsc(Z(k)))]

\* the script cache as the driver can ask for it (SCRIPT EXISTS)
Cache == {[sha |-> Scripts[n].sha, st |-> scr[n]] : n \in ScriptNames}

\* (histories that never touched the script cache carry no cache field)
Emit == fin => PrintT(ToJson(IF \E n \in ScriptNames : scr[n] # "none"
                             THEN [steps |-> hist, final |-> {Snap(k) : k \in Keys}, cache |-> Cache]
                             ELSE [steps |-> hist, final |-> {Snap(k) : k \in Keys}]))

=============================================================================
