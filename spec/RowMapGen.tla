------------------------------ MODULE RowMapGen ------------------------------
(* Case generator for RowMap.tla (property C11): one JSON object per case,   *)
(* carrying the destination shape, the result set and the allowed outcomes.  *)
EXTENDS RowMap, Json

Emit == picked => PrintT(ToJson(out))
=============================================================================
