------------------------------- MODULE Wheel -------------------------------
(***************************************************************************)
(* Abstract timing wheel (property C10; lib/collection/timingwheel.go).    *)
(*                                                                         *)
(* Time is counted in ticks of the wheel interval I.  A task set while the *)
(* wheel has seen T ticks with a delay of d intervals (d >= 1; a real      *)
(* delay below I is clamped to 1 by SetTimer) is due at tick T + d.        *)
(* The state is what the statement talks about: which keys are pending,    *)
(* with which value and due tick; nothing about slots or circles (those    *)
(* live in WheelImpl.tla, which is checked to refine this module).         *)
(*                                                                         *)
(* `out` is an observation-only variable: the last operation, its          *)
(* arguments and the result the API must show (error class, set of fired   *)
(* <<key, value>> pairs, drained pairs).  Model-checking configurations    *)
(* hide it with VIEW; generator configurations record it in a history.     *)
(***************************************************************************)
EXTENDS Integers, Sequences, FiniteSets, TLC

CONSTANTS Keys,     \* task keys
          Vals,     \* task values (integers)
          MaxD      \* largest delay, in intervals

VARIABLES T,        \* ticks seen by the wheel
          pend,     \* [Keys -> [due : Nat, val : Vals \cup {0}]]; due = 0 <=> not pending
          closed,   \* Stop was called
          drained,  \* Drain was called (a shutdown operation: only Tick and Stop may follow)
          out       \* observation of the last step

vars == <<T, pend, closed, drained, out>>
core == <<T, pend, closed, drained>>     \* VIEW for model checking

Absent == [due |-> 0, val |-> 0]
Pending(p) == {k \in Keys : p[k].due # 0}
Pairs(p, ks) == {[k |-> k, v |-> p[k].val] : k \in ks}

TypeOK ==
  /\ T \in Nat
  /\ pend \in [Keys -> [due : Nat, val : Vals \cup {0}]]
  /\ \A k \in Keys : pend[k].due # 0 => pend[k].due > T /\ pend[k].val \in Vals
  /\ closed \in BOOLEAN /\ drained \in BOOLEAN

Init ==
  /\ T = 0
  /\ pend = [k \in Keys |-> Absent]
  /\ closed = FALSE
  /\ drained = FALSE
  /\ out = [op |-> "init"]

(* ---------------------------------------------------------------- pure step functions *)

DueAt(p, t) == {k \in Keys : p[k].due = t}

\* one tick: tasks due at t+1 fire (exactly once: they leave pend)
TickPend(p, t) == [k \in Keys |-> IF p[k].due = t + 1 THEN Absent ELSE p[k]]
TickFired(p, t) == Pairs(p, DueAt(p, t + 1))

SetPend(p, t, k, v, d)  == [p EXCEPT ![k] = [due |-> t + d, val |-> v]]
MovePend(p, t, k, d)    == IF p[k].due = 0 THEN p ELSE [p EXCEPT ![k].due = t + d]
RemovePend(p, k)        == [p EXCEPT ![k] = Absent]

(* ---------------------------------------------------------------- actions *)

Tick ==
  /\ ~closed
  /\ T' = T + 1
  /\ pend' = TickPend(pend, T)
  /\ out' = [op |-> "tick", fired |-> TickFired(pend, T)]
  /\ UNCHANGED <<closed, drained>>

Set(k, v, d) ==
  /\ ~drained
  /\ IF closed
       THEN /\ out' = [op |-> "set", k |-> k, v |-> v, d |-> d, err |-> "closed"]
            /\ UNCHANGED core
       ELSE /\ pend' = SetPend(pend, T, k, v, d)
            /\ out' = [op |-> "set", k |-> k, v |-> v, d |-> d, err |-> "ok"]
            /\ UNCHANGED <<T, closed, drained>>

Move(k, d) ==
  /\ ~drained
  /\ IF closed
       THEN /\ out' = [op |-> "move", k |-> k, d |-> d, err |-> "closed"]
            /\ UNCHANGED core
       ELSE /\ pend' = MovePend(pend, T, k, d)
            /\ out' = [op |-> "move", k |-> k, d |-> d, err |-> "ok"]
            /\ UNCHANGED <<T, closed, drained>>

Remove(k) ==
  /\ ~drained
  /\ IF closed
       THEN /\ out' = [op |-> "remove", k |-> k, err |-> "closed"]
            /\ UNCHANGED core
       ELSE /\ pend' = RemovePend(pend, k)
            /\ out' = [op |-> "remove", k |-> k, err |-> "ok"]
            /\ UNCHANGED <<T, closed, drained>>

\* nil key or non-positive delay: ErrArgument, no side effect (generated only while open:
\* the statement does not order the two error classes)
BadArg(which) ==
  /\ ~closed /\ ~drained
  /\ out' = [op |-> which, err |-> "arg"]
  /\ UNCHANGED core

Drain ==
  /\ ~drained
  /\ IF closed
       THEN /\ out' = [op |-> "drain", err |-> "closed", drained |-> {}]
            /\ UNCHANGED core
       ELSE /\ out' = [op |-> "drain", err |-> "ok", drained |-> Pairs(pend, Pending(pend))]
            /\ pend' = [k \in Keys |-> Absent]
            /\ drained' = TRUE
            /\ UNCHANGED <<T, closed>>

Stop ==
  /\ ~closed
  /\ closed' = TRUE
  /\ out' = [op |-> "stop"]
  /\ UNCHANGED <<T, pend, drained>>

BadOps == {"set_nilkey", "set_zero", "set_neg", "move_nilkey", "move_zero", "remove_nilkey"}

Next ==
  \/ Tick
  \/ \E k \in Keys, v \in Vals, d \in 1..MaxD : Set(k, v, d)
  \/ \E k \in Keys, d \in 1..MaxD : Move(k, d)
  \/ \E k \in Keys : Remove(k)
  \/ \E w \in BadOps : BadArg(w)
  \/ Drain
  \/ Stop

Spec == Init /\ [][Next]_vars

(* ---------------------------------------------------------------- the property *)

\* A task fires only during a Tick, only at its due tick, and then it is no longer pending.
FiresOnlyAtDue ==
  [][\A k \in Keys :
        (pend[k].due # 0 /\ pend'[k].due = 0) =>
           \/ (T' = T + 1 /\ pend[k].due = T')                 \* fired by this tick
           \/ (T' = T /\ out'.op \in {"remove", "drain"})       \* taken away by the caller
    ]_vars

\* Nothing but Set creates a pending task; nothing but Set/Move changes a due tick.
OnlySetSchedules ==
  [][\A k \in Keys :
        (pend'[k].due # 0 /\ pend'[k] # pend[k]) => out'.op \in {"set", "move"} /\ out'.k = k
    ]_vars

\* After Stop or Drain nothing is ever scheduled again.
ShutdownIsFinal ==
  [][(closed \/ drained) => (Pending(pend') \subseteq Pending(pend))]_vars

=============================================================================
