---------------------------- MODULE RotateLogGen ----------------------------
(***************************************************************************)
(* Generator of write histories for the rotating log writer (C19).         *)
(*                                                                         *)
(* A behaviour is: one "init" step carrying a configuration (rule, bounds, *)
(* compression, delimiter, the pre-existing backups as ages in hours, the  *)
(* bytes already in the current file, how backup names are produced), then *)
(* MaxOps operations - write(size) or, under the daily rule, a simulated   *)
(* day change, or a burst / flood of writes with no barrier - then "close" *)
(* (or Close with a burst still queued).  Nothing is predicted: where      *)
(* rotations happen is the implementation's choice (RotateLog.tla); the    *)
(* directory states recorded by the driver are judged by                   *)
(* RotateLogTrace.tla.                                                     *)
(*                                                                         *)
(* Hour of the day (cfg.names = "hours", size rule): the instants the      *)
(* backups stand for are a dimension of the configuration.  cfg.rot[k] =   *)
(* hours (+30 min) after a base midnight at which the k-th file is STARTED *)
(* (a size-rule backup carries the start of its file), cfg.pre = the hours *)
(* after that midnight the pre-existing backups stand for: 00, 01, 09, 11, *)
(* 12, 13, 14, 23 h on one date and across dates, starts 12 h and 24 h     *)
(* apart.  The trace carries for every backup ts = the TRUE instant it     *)
(* stands for (known to the driver, not decoded from the name), so         *)
(* RotateLogRel!BeyondMax / Older judge "newest" and "older than" in true  *)
(* time order.                                                             *)
(***************************************************************************)
EXTENDS Integers, Sequences, Json, TLC

CONSTANTS GConfigs,   \* set of configuration records
          GSizes,     \* record sizes
          MaxOps,     \* operations per behaviour
          MaxDay,     \* simulated day changes per behaviour (daily rule)
          GFams,      \* log files a record may be sent to ({""} = the single writer)
          GBurst,     \* size tuples of the bursts / of the records queued at Close ({} = none)
          GPrefixes,  \* size tuples written (one barriered write each) before the enumerated operations ({<<>>} = none)
          GFloods     \* floods <<n, s, d>>: bursts of n small records, n beyond the capacity of the writer's queue ({} = none)

VARIABLES hist, cfg, nday, fin, base    \* base = Len(hist) after init and prefix

gvars == <<hist, cfg, nday, fin, base>>

PrefixOps(p) == [i \in 1..Len(p) |-> [op |-> "write", size |-> p[i], fam |-> CHOOSE f \in GFams : TRUE]]

GInit == /\ cfg \in GConfigs
         /\ \E p \in GPrefixes : hist = <<[op |-> "init", cfg |-> cfg]>> \o PrefixOps(p)
         /\ base = Len(hist)
         /\ nday = 0 /\ fin = FALSE

GWrite(s, f) == /\ ~fin /\ Len(hist) - base < MaxOps
                /\ hist' = Append(hist, [op |-> "write", size |-> s, fam |-> f])
                /\ UNCHANGED <<cfg, nday, fin, base>>

\* A flood is a burst of ONE producer that is longer than the writer's queue (100 slots): n small
\* self-identifying records written in a tight loop with no barrier, sizes cycling through s, s+d,
\* s+2d.  The producer outruns the writer goroutine, finds the queue full and Write has to wait;
\* whatever Write does then, a record it accepted and that was processed before Close must be in
\* the files after every record accepted before it (RotateLogRel!BurstFailed, clause burst-order).
FloodSizes(fl) == [i \in 1..fl[1] |-> fl[2] + (i % 3) * fl[3]]
Bursts == GBurst \cup {FloodSizes(fl) : fl \in GFloods}

\* several writes with no barrier between them
GBurstOp(b, f) == /\ ~fin /\ Len(hist) - base < MaxOps
                  /\ hist' = Append(hist, [op |-> "burst", sizes |-> b, fam |-> f])
                  /\ UNCHANGED <<cfg, nday, fin, base>>

\* Close with these records still queued
GCloseQ(b, f) == /\ ~fin /\ Len(hist) - base = MaxOps
                 /\ hist' = Append(hist, [op |-> "closeq", sizes |-> b, fam |-> f])
                 /\ fin' = TRUE
                 /\ UNCHANGED <<cfg, nday, base>>

\* a day change directly after another one, or as the last operation, shows nothing new
GDay == /\ ~fin /\ Len(hist) - base < MaxOps - 1
        /\ cfg.rule = "daily" /\ nday < MaxDay
        /\ hist[Len(hist)].op # "daychange"
        /\ hist' = Append(hist, [op |-> "daychange"])
        /\ nday' = nday + 1
        /\ UNCHANGED <<cfg, fin, base>>

GClose == /\ ~fin /\ Len(hist) - base = MaxOps
          /\ hist' = Append(hist, [op |-> "close"])
          /\ fin' = TRUE
          /\ UNCHANGED <<cfg, nday, base>>

GNext == \/ \E s \in GSizes, f \in GFams : GWrite(s, f)
         \/ \E b \in Bursts, f \in GFams : GBurstOp(b, f) \/ GCloseQ(b, f)
         \/ GDay \/ GClose

GSpec == GInit /\ [][GNext]_gvars

Emit == fin => PrintT(ToJson(hist))
=============================================================================
